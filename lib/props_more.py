"""Protocol, server and concurrency properties:
C09 C10 C11 C12 C13 (Wire, WireTrace, WireTcpTrace), C17 C18 C20 (Server, ServerTrace, FaultTrace),
C03 C04 C16 (MemcConc, MemcLin)."""
import json
import os
import shutil
import time
from vlib import *
import seqlib
import conclib
import props_seq

ASSUME_WIRE = [
    "exhaustive part: Wire.tla with abstract byte units (header = 2 units, limit = 2 units), pipelines of <= 3 frames from a 10-15 shape alphabet, every way of cutting the stream into writes/reads, every client cut offset",
    "binding: TLC-generated (stream, cut, read sizes) cases are made concrete and replayed on the real decoder and over a real socket; seeded streams (valid, odd, invalid, unimplemented, oversized, random bytes, the C10 header grid) are run under many segmentations; every recorded run is validated by TLC against WireTrace / WireTcpTrace",
    "the harness converts bytes <-> logged header fields, splits responses by the lengths their headers announce, and contains no oracle",
    "socket runs: the client waits for the server-side read hook before the next chunk, so the segmentation sent is the segmentation read; buffer capacity observed through the conn.read hook; 'small constant' of C10 taken as 128 KiB",
]
ASSUME_SRV = [
    "exhaustive part: Server.tla with <= 4 connections, 1-2 listeners, limit 2, all ways a connection ends, all interleavings; safety and liveness under weak fairness",
    "binding: connection lifecycles are replayed on an in-process MemcacheTcpServer (hook events of the semaphore merged by one global sequence counter) and black-box on the memcrsd binary; 'as soon as a slot frees' taken as within 5 s; idle timeout configured to 2 s",
]
ASSUME_CONC = [
    "exhaustive part: MemcConc.tla, 2 (quick) / 3 (thorough) clients with one command each on one key, initial states absent / present / expired, every interleaving at the granularity of the hooked accesses",
    "binding: real threads run real commands under a deterministic scheduler (every map / atomic / key-lock access is a yield point with an exact would-block probe); all schedules of the 2-client programs are enumerated on the real crate (stateless DFS), TLC-generated schedules are replayed step for step; every recorded history is decided by TLC (MemcLin: linearizability against MemcContract)",
    "schedules with the same observable history are validated once; OS-scheduled stress rounds (3-5 free-running threads, <= 8 commands per round) complement the enumeration",
]


class Run:
    """Collects violations / coverage over many (job -> trace -> TLC) results of one check."""

    def __init__(self, pid, tier, seed):
        self.pid, self.tier, self.seed = pid, tier, seed
        self.t0 = time.time()
        self.results = []      # (jobdesc, result)
        self.mc = []
        self.bad = []          # (jobdesc, result, violation)
        self.drift = 0
        self.events = 0
        self.traces = 0
        self.cov = {}
        self.samples = []
        self.extra = {}
        self.dir = workdir("check-" + pid)

    def add_mc(self, spec, cfg, workers=10, timeout=1200, name=None):
        r = tlc_mc(spec, cfg, workers=workers, timeout=timeout, name=name or cfg)
        if not r["ok"]:
            raise ToolError("model checking %s/%s failed: %s violated (see %s)" % (spec, cfg, r["violated"], r["out_file"]))
        self.mc.append(r)
        return r

    def add_result(self, job, res, tag_filter=True):
        self.results.append((job, res))
        self.events += res.get("lines", 0)
        for c in res.get("coverage", []):
            self.cov[c[0]] = self.cov.get(c[0], 0) + c[1]
        for v in res.get("violations", []):
            tags = v.get("tags", [])
            if "DRIFT" in tags:
                self.drift += 1
                log("DRIFT: %s: %s" % (job.get("desc"), json.dumps(v)[:200]))
            elif self.pid in tags:
                self.bad.append((job, res, v))

    def finish(self, assumptions, required=(), exhaustive=True, note=None):
        missing = [x for x in required if not any(k == x or k.startswith(x) for k in self.cov)]
        if missing and not self.bad:      # (a run that ends in violations may not have reached every rule)
            raise ToolError("vacuous run for %s: rules never exercised: %s (have %s)" % (self.pid, missing, sorted(self.cov)))
        findings = load_findings()
        nbad = 0
        seen = set()
        for (job, res, v) in self.bad:
            ident = {"kind": "rule", "rule": v.get("rule")}
            f = match_finding(findings, self.pid, ident)
            if f:
                if f["id"] not in seen:
                    seen.add(f["id"])
                    log("KNOWN-FINDING: property=%s %s" % (self.pid, f["what"]))
                continue
            nbad += 1
            if nbad > 4:
                continue
            excerpt = []
            try:
                evs = read_ndjson(res["trace_file"])
                ln = v.get("line", 1)
                excerpt = evs[max(0, ln - 6):ln + 1]
            except Exception:
                pass
            path = write_replay(self.pid, {"driver": job.get("driver"), "args": job.get("args"), "spec": job.get("spec"),
                                           "property": self.pid, "violation": v, "excerpt": excerpt})
            log("VIOLATION property=%s replay=%s" % (self.pid, path))
            log("  %s: rule %s %s" % (job.get("desc"), v.get("rule"), json.dumps({k: v[k] for k in v if k not in ("rule", "tags")})[:240]))
        states = sum(r["distinct"] for r in self.mc)
        trans = sum(r["generated"] for r in self.mc)
        if not self.samples and self.results:
            try:
                self.samples.append({"trace_head": read_ndjson(self.results[0][1]["trace_file"])[:4]})
            except Exception:
                pass
        coverage = {
            "states": max(states, 1), "transitions": max(trans, 1),
            "traces_validated_against_impl": self.traces,
            "samples": [json.loads(json.dumps(s)[:6000] if len(json.dumps(s)) <= 6000 else json.dumps({"truncated": json.dumps(s)[:5000]})) for s in self.samples] or [{"none": True}],
            "evaluations": max(self.events, 1),
            "distinct_nontrivial": max(len([k for k in self.cov if self.cov[k] > 0]), 0),
            "rule": "evaluations = recorded events validated by TLC; distinct_nontrivial = distinct rules of the trace specification exercised (frame class x outcome, lifecycle step, fault kind x verdict ...), counted by the trace spec",
            "exhaustive": exhaustive and bool(self.mc),
            "mc_runs": [{"cfg": r["cfg"], "distinct": r["distinct"], "generated": r["generated"], "wall_s": round(r["wall_s"], 1)} for r in self.mc],
            "rules_exercised": self.cov,
            "model_drift": self.drift,
            "checker_cmd": "tlc (model checking of the spec) + tlc trace validation of recorded NDJSON",
        }
        coverage.update(self.extra)
        if note:
            coverage["note"] = note
        write_evidence(self.pid, self.tier, self.seed, coverage, assumptions, time.time() - self.t0, nbad)
        return 1 if nbad else 0


def job_trace(driver_args, spec, out_name, d, desc, port=None, lin=False):
    """Runs one harness job that writes <out>, then validates it with <spec>."""
    out = os.path.join(d, out_name)
    args = list(driver_args) + ["--out", out]
    if port:
        args += ["--port", port]
    st = harness(args, timeout=1800)
    if driver_args[0] == "cfg-suite" and "--conn-only" not in [str(x) for x in driver_args] and "--mem-probe" not in [str(x) for x in driver_args]:
        # the suite writes four traces: pick the one the spec validates
        out = out + {"WireTcpTrace": ".wire.ndjson", "MemcTrace": ".cmd.ndjson", "ServerTrace": ".conn.ndjson", "CountTrace": ".count.ndjson"}.get(spec, ".cmd.ndjson")
    if lin:
        res = conclib.lin_check(out, name=os.path.basename(d) + "-" + out_name)
    else:
        res = tlc_trace(out, spec=spec, name=os.path.basename(d) + "-" + out_name)
    res["harness"] = st
    return {"driver": driver_args[0], "args": [str(a) for a in driver_args], "spec": spec, "desc": desc}, res


def gen_wire_cases(run, seed, num, cuts=True):
    """TLC-generated behaviours of the Wire model as (stream, cut, read sizes) cases."""
    d = run.dir
    cfg = "GEN_Wire"
    r = tlc_mc("MC_Wire", cfg, workers=1, timeout=600, name="GEN_Wire_" + run.pid,
               extra=["-simulate", "num=%d" % num, "-depth", "80", "-seed", str(seed)])
    if not r["ok"]:
        raise ToolError("TLC simulation of Wire failed (see %s)" % r["out_file"])
    cases = []
    for line in open(r["out_file"]):
        line = line.strip()
        if line.startswith('"CASE '):
            cases.append(json.loads(line)[len("CASE "):])
    cases = sorted(set(cases))
    path = os.path.join(d, "cases.json")
    with open(path, "w") as f:
        for c in cases:
            f.write(c + "\n")
    return path, len(cases)


def ports(i):
    # every parallel job gets its own port range
    return 20000 + (os.getpid() % 400) * 100 + i * 7


# ---------------------------------------------------------------------------------------------

def run_wire(pid, tier, seed, replay):
    run = Run(pid, tier, seed)
    build_harness()
    d = run.dir
    quick = tier == "quick"
    if replay:
        rp = json.load(open(replay))
        if rp["args"] and rp["args"][0] == "cfg-suite":
            build_memcrsd()
        job, res = job_trace(rp["args"], rp["spec"], "replay.ndjson", d, "replay", lin=(rp["spec"] == "MemcLin"))
        run.add_result(job, res)
        return run.finish(ASSUME_WIRE)
    # 1. exhaustive: the model of decoder + connection loop satisfies the contract for every segmentation / cut
    run.add_mc("MC_Wire", "MC_Wire_seg", workers=10)
    run.add_mc("MC_Wire", "MC_Wire_cut", workers=10)
    if pid in ("C11", "C12"):
        # the write side under back-pressure: partial writes, a send buffer, a client that reads when it likes - the client's
        # view is a prefix of the whole responses in order; a single write call per response must fail
        run.add_mc("WireOut", "MC_WireOut", workers=2)
        r = tlc_mc("WireOut", "MC_WireOut_once", workers=2, timeout=300)
        if r["ok"] or r["violated"] != "StreamOK":
            raise ToolError("WireOut with a single write call per response should violate StreamOK (got %s)" % r["violated"])
        run.extra["sensitivity"] = "WireOut with WriteAll = FALSE violates StreamOK, as expected"
    # 2. spec -> code: TLC cases at the decoder and over a socket
    cases, ncases = gen_wire_cases(run, seed, 300 if quick else 3000)
    jobs = []
    jobs.append((["run-cases", "--mode", "wire", "--cases", cases, "--limit", 64], "WireTrace", "cases-wire.ndjson", "TLC cases at the decoder", None))
    jobs.append((["run-cases", "--mode", "tcp", "--cases", cases, "--limit", 64], "WireTcpTrace", "cases-tcp.ndjson", "TLC cases over a socket", ports(0)))
    # 3. code -> spec: seeded streams under many segmentations
    n = 1 if quick else 8
    segw = "single" if quick else "pairs"
    if pid in ("C09", "C11", "C12"):
        for i, prof in enumerate(["pipeline", "unimpl", "odd", "invalid", "random"]):
            cnt = {"C09": 30, "C11": 12, "C12": 15}[pid] * n
            jobs.append((["gen-wire", "--profile", prof, "--count", cnt, "--seed", seed * 100 + i, "--seg", "single"],
                         "WireTrace", "wire-%s.ndjson" % prof, "decoder streams %s" % prof, None))
            if pid == "C09" and not quick:
                # every pair of cut points (streams up to 160 bytes): two jobs of 15 streams per profile
                for k in range(2):
                    jobs.append((["gen-wire", "--profile", prof, "--count", 15, "--seed", seed * 100 + 40 + 10 * k + i, "--seg", "pairs"],
                                 "WireTrace", "wire-pairs-%s-%d.ndjson" % (prof, k), "decoder streams %s, all pairs of cuts" % prof, None))
    if pid in ("C09", "C12", "C13", "C11"):
        profs = {"C09": ["tpipeline", "todd", "toversize", "tunimpl", "twrap", "tflip"], "C12": ["tpipeline", "tquit", "tunimpl", "todd"],
                 "C13": ["toversize", "tbig", "tpipeline"], "C11": ["tpipeline", "tunimpl", "toversize"]}[pid]
        for i, prof in enumerate(profs):
            cnt = (10 if pid != "C13" else 14) * n
            if prof == "twrap":
                cnt = 4 * n         # (frames of 64 KiB .. 1 MiB)
            segm = "single" if quick else "all"
            if prof in ("tbig", "twrap"):
                # bodies of up to 8 MiB: more streams in the thorough tier, not more cuts of each
                cnt, segm = (14 if quick else 40) if prof == "tbig" else cnt, "single"
            jobs.append((["tcp-wire", "--profile", prof, "--count", cnt, "--seed", seed * 100 + 50 + i, "--seg", segm],
                         "WireTcpTrace", "tcp-%s.ndjson" % prof, "socket streams %s" % prof, ports(1 + i)))
    if pid in ("C11", "C12"):
        # back-pressure on the write path: answers far beyond the socket buffers, read at once / late / in drips
        jobs.append((["tcp-wire", "--profile", "tslow", "--count", 2 if quick else 9, "--seed", seed * 100 + 70], "WireTcpTrace", "tcp-tslow.ndjson",
                     "socket streams with 12 MB of answers, slow readers", ports(7)))
    if pid == "C13":
        # an oversized frame of every opcode 0x00..0x24, requests behind it
        jobs.append((["tcp-wire", "--profile", "toversweep", "--count", 37 if quick else 111, "--seed", seed * 100 + 71, "--seg", "few" if quick else "single"],
                     "WireTcpTrace", "tcp-toversweep.ndjson", "oversized frame of every opcode", ports(8)))
    if pid == "C10":
        # the grid covers all 256 opcodes, split over 32 parts by opcode; quick runs 8 of them (rotating with the seed:
        # part p holds the opcodes = p mod 32, so every run has implemented, unimplemented and unassigned ones)
        nparts = 8 if quick else 32
        for p in range(nparts):
            jobs.append((["gen-wire", "--profile", "grid", "--seg", "two" if quick else "few", "--part", (p + 8 * seed) % 32 if quick else p, "--parts", 32, "--limit", 1024],
                         "WireTrace", "grid-%d.ndjson" % p, "header grid part %d" % p, None))
        for i, prof in enumerate(["random", "invalid", "odd"]):
            jobs.append((["gen-wire", "--profile", prof, "--count", 40 * n, "--seed", seed * 100 + i, "--seg", "single"],
                         "WireTrace", "wire-%s.ndjson" % prof, "decoder streams %s" % prof, None))
        jobs.append((["tcp-wire", "--profile", "todd", "--count", 10 * n, "--seed", seed * 100 + 60, "--seg", "single"],
                     "WireTcpTrace", "tcp-todd.ndjson", "socket streams todd", ports(1)))
        jobs.append((["tcp-wire", "--profile", "tbig", "--count", 4 * n, "--seed", seed * 100 + 61, "--seg", "single"],
                     "WireTcpTrace", "tcp-tbig.ndjson", "socket streams tbig", ports(2)))
    if pid in ("C12", "C11", "C13"):
        # programs of abstract commands pipelined over a socket, judged by the store contract (order, quiet rules, TooLarge)
        progs = [("general", 10 * n), ("quiet", 10 * n), ("cond", 6 * n)]
        if pid == "C11":
            progs.append(("huge", 6 * n))       # values around 64 KiB / 128 KiB through the server's own write path
        for i, (prof, cnt) in enumerate(progs):
            jobs.append((["tcp-prog", "--profile", prof, "--count", cnt, "--seed", seed * 100 + 70 + i, "--pipeline", 6, "--chunk", 11],
                         "MemcTrace", "prog-%s.ndjson" % prof, "pipelined programs %s" % prof, ports(6 + i)))

    def one(j):
        try:
            return job_trace(j[0], j[1], j[2], d, j[3], port=j[4])
        except HarnessCrash as ex:
            if pid != "C10":
                raise
            # the process that executes the client input died (abort, kill by the OOM killer, segfault): for C10 that is a
            # verdict about the input it was working on, not a tool failure
            return ({"driver": j[0][0], "args": [str(a) for a in j[0]], "spec": j[1], "desc": j[3]},
                    {"lines": 0, "coverage": [], "violations": [{"tags": ["C10"], "rule": "process.died.rc=%s" % ex.rc, "line": 0}], "trace_file": ""})
    for job, res in parallel(one, jobs, workers=10):
        run.add_result(job, res)
        run.traces += int(res.get("harness", {}).get("universes", 0) or res.get("harness", {}).get("ran", 0) or res.get("harness", {}).get("histories", 0) or 0)
    if pid in ("C10", "C11"):
        # the handler-level part: every command kind / outcome through decode -> handle -> encode, arithmetic checked
        rr = seqlib.gen_and_validate([("general", 30 * n, seed * 1000 + 1), ("counter", 30 * n, seed * 1000 + 2), ("cas", 20 * n, seed * 1000 + 3),
                                      ("huge", 4 * n, seed * 1000 + 4), ("huge", 4 * n, seed * 1000 + 5)], "rand-" + pid)
        for r in rr:
            run.add_result({"driver": "gen-seq", "args": ["gen-seq", "--profile", r["job"][0], "--count", r["job"][1], "--seed", r["job"][2]],
                            "spec": "MemcTrace", "desc": "handler level %s" % r["job"][0]}, r)
            run.traces += r.get("histories", 0)
        reg = os.path.join(VERIF, "regress", pid + ".json")
        if os.path.exists(reg):
            r = seqlib.run_programs(reg, "regress-" + pid)
            run.add_result({"driver": "run-seq", "args": ["run-seq", "--programs", reg], "spec": "MemcTrace", "desc": "regression programs"}, r)
    if pid in ("C13", "C10"):
        # the limit that is enforced is the one configured, also above 1 MiB and under either runtime type: the memcrsd binary
        # started with --item-size-limit 3 MiB / 2 KiB, a body of exactly the limit is stored, one byte more is refused (C10:
        # and therefore not buffered)
        binp = build_memcrsd()
        for i, (rt, lim) in enumerate([("multi-thread", 3 * 1024 * 1024), ("current-thread", 2048)] if quick else [("multi-thread", 3 * 1024 * 1024), ("current-thread", 2 * 1024 * 1024), ("multi-thread", 1536 * 1024), ("multi-thread", 2048), ("current-thread", 2048)]):
            prefix = os.path.join(d, "cfglimit%d" % i)
            st = harness(["cfg-suite", "--bin", binp, "--runtime", rt, "--threads", 2, "--conn-limit", 3, "--item-limit", lim,
                          "--count", 1, "--seed", seed, "--port", ports(30 + i), "--out", prefix], timeout=600)
            if not st.get("started"):
                raise ToolError("memcrsd did not start with %s" % st.get("args"))
            res = tlc_trace(prefix + ".wire.ndjson", spec="WireTcpTrace", name="c13-cfg-%d" % i)
            run.add_result({"driver": "cfg-suite", "args": ["cfg-suite", "--bin", binp, "--runtime", rt, "--threads", 2, "--conn-limit", 3,
                                                            "--item-limit", lim, "--count", 1, "--seed", seed], "spec": "WireTcpTrace",
                            "desc": "memcrsd --item-size-limit %d" % lim}, res)
            run.traces += 1
    run.extra["tlc_generated_cases_replayed"] = ncases
    required = {"C09": ["executed.canonical", "closed.odd", "served"], "C10": ["closed.invalid", "garbage", "await"],
                "C11": ["executed.canonical", "served"], "C12": ["served", "quit", "quitq", "unimpl.answered"],
                "C13": ["served", "oversize"]}[pid]
    return run.finish(ASSUME_WIRE, required=required)


def run_srv(pid, tier, seed, replay):
    run = Run(pid, tier, seed)
    build_harness()
    d = run.dir
    quick = tier == "quick"
    if replay:
        rp = json.load(open(replay))
        if rp["args"] and rp["args"][0] == "cfg-suite":
            build_memcrsd()
        job, res = job_trace(rp["args"], rp["spec"], "replay.ndjson", d, "replay")
        run.add_result(job, res)
        return run.finish(ASSUME_SRV)
    jobs = []
    if pid == "C17":
        run.add_mc("Server", "MC_Server_shared", workers=10)
        # the model of what current-thread mode did before the repair must fail: the check is not vacuous
        r = tlc_mc("Server", "MC_Server_perlistener", workers=6, timeout=600)
        if r["ok"] or r["violated"] != "LimitEnforced":
            raise ToolError("Server.tla with one semaphore per listener should violate LimitEnforced (got %s)" % r["violated"])
        run.extra["sensitivity"] = "Server.tla with Shared = FALSE violates LimitEnforced, as expected"
        n = 3 if quick else 24
        for i in range(n):
            jobs.append((["tcp-conn", "--count", 2, "--seed", seed * 100 + i], "ServerTrace", "conn-%d.ndjson" % i, "connection lifecycles #%d" % i, ports(i * 2)))
        # the memcrsd binary itself, both runtime types (the limit travels from the command line through the runtime
        # builder to the semaphore), black-box: connection limit different from the listen backlog
        binp = build_memcrsd()
        for i, (rt, th, lim) in enumerate([("multi-thread", 2, 2), ("current-thread", 2, 3), ("multi-thread", 4, 1), ("current-thread", 1, 2)][:(2 if quick else 4)]):
            jobs.append((["cfg-suite", "--conn-only", "1", "--bin", binp, "--runtime", rt, "--threads", th, "--conn-limit", lim, "--item-limit", 1024,
                          "--count", 2 if quick else 8, "--seed", seed * 10 + i], "ServerTrace", "bin-conn-%d.ndjson" % i,
                         "memcrsd --runtime-type %s --threads %d --connection-limit %d: connection lifecycles" % (rt, th, lim), ports(50 + i)))
        required = ["acquire", "release", "answered", "waiting", "finish", "end.idlemid", "end.idle", "end.close"]
    elif pid == "C18":
        run.add_mc("MC_Wire", "MC_Wire_cut", workers=10)
        cases, ncases = gen_wire_cases(run, seed, 200 if quick else 2000)
        jobs.append((["run-cases", "--mode", "tcp", "--cases", cases, "--limit", 64], "WireTcpTrace", "cases-tcp.ndjson", "TLC cut cases over a socket", ports(0)))
        n = 2 if quick else 10
        for i in range(n):
            jobs.append((["tcp-fault", "--count", 1, "--seed", seed * 100 + i, "--cuts", "sample" if quick else "all"],
                         "FaultTrace", "fault-%d.ndjson" % i, "faults on stream #%d" % i, ports(1 + i)))
        # one corrupted header byte (length fields, magic, data type, opcode) in a complete request that would remove or
        # rewrite an item: not executed, everything sent before it is
        jobs.append((["tcp-wire", "--profile", "tflip", "--count", 40 if quick else 400, "--seed", seed * 100 + 80, "--seg", "few"], "WireTcpTrace",
                     "tcp-tflip.ndjson", "corrupted header byte in a complete request", ports(20)))
        required = ["close.all", "halfclose.all", "reset.prefix", "corrupt.all", "silence.all", "cut.closed", "bulky.contained", "silent.hogs.timed.out", "closed.odd", "closed.invalid"]
        run.extra["tlc_generated_cases_replayed"] = ncases
    else:
        raise ToolError("unknown server property " + pid)

    def one(j):
        return job_trace(j[0], j[1], j[2], d, j[3], port=j[4])
    for job, res in parallel(one, jobs, workers=8):
        run.add_result(job, res)
        h = res.get("harness", {})
        run.traces += int(h.get("scenarios", 0) or h.get("runs", 0) or h.get("ran", 0) or 0)
    return run.finish(ASSUME_SRV, required=required)


CONFIGS_QUICK = [
    dict(runtime="current-thread", threads=1, policy="none", conn=2, item=2048),
    dict(runtime="current-thread", threads=2, policy="random", conn=3, item=1024),
    dict(runtime="multi-thread", threads=2, policy="none", conn=3, item=1024),
    dict(runtime="multi-thread", threads=8, policy="random", conn=2, item=2048),
    # enough slots for the counting hammer's connections to spread over the listener threads / workers
    dict(runtime="current-thread", threads=4, policy="none", conn=8, item=2048),
    dict(runtime="multi-thread", threads=4, policy="none", conn=8, item=1024),
]


def build_memcrsd():
    env = dict(os.environ, CARGO_NET_OFFLINE="true", RUSTFLAGS="--cfg memcrs_verif --check-cfg cfg(memcrs_verif)")
    p = subprocess.run(["cargo", "build", "--offline", "--bin", "memcrsd", "--target-dir", os.path.join(HARNESS, "target", "repo")],
                       cwd="/repo", env=env, stdout=subprocess.PIPE, stderr=subprocess.STDOUT, text=True)
    if p.returncode != 0:
        raise ToolError("building memcrsd failed\n" + "\n".join(p.stdout.splitlines()[-30:]))
    return os.path.join(HARNESS, "target", "repo", "debug", "memcrsd")


def run_c20(pid, tier, seed, replay):
    run = Run(pid, tier, seed)
    build_harness()
    binp = build_memcrsd()
    d = run.dir
    quick = tier == "quick"
    if replay:
        rp = json.load(open(replay))
        if not rp.get("args"):
            raise ToolError("this C20 replay (cross-configuration comparison) has no single command line: re-run ./check C20")
        job, res = job_trace(rp["args"], rp["spec"], "replay", d, "replay")
        for v in res.get("violations", []):
            v["tags"] = sorted(set(v.get("tags", [])) | {"C20"})
        run.add_result(job, res)
        return run.finish(ASSUME_SRV)
    configs = list(CONFIGS_QUICK)
    if not quick:
        for rt in ("current-thread", "multi-thread"):
            for th in (1, 2, 8):
                for pol in ("none", "random"):
                    configs.append(dict(runtime=rt, threads=th, policy=pol, conn=2 + (th % 3), item=1024 * (1 + th % 2)))
    # the Server model: the number of listeners must not matter (C20 for the connection limit)
    run.add_mc("Server", "MC_Server_shared", workers=8)

    def one(ic):
        i, c = ic
        prefix = os.path.join(d, "cfg%d" % i)
        args = ["cfg-suite", "--bin", binp, "--runtime", c["runtime"], "--threads", c["threads"], "--policy", c["policy"],
                "--memory", "512MiB", "--conn-limit", c["conn"], "--item-limit", c["item"], "--count", 3 if quick else 6, "--seed", seed,
                "--port", ports(i * 3), "--out", prefix]
        # the real-time TTL probe (7.5 s): on a current-thread and on a multi-thread configuration (all of the first six in the
        # thorough tier)
        if (i in (0, 2)) if quick else (i < 6):
            args.append("--ttl")
        st = harness(args, timeout=600)
        if not st.get("started"):
            raise ToolError("memcrsd did not start with %s" % st.get("args"))
        out = []
        for suffix, spec in (("cmd", "MemcTrace"), ("wire", "WireTcpTrace"), ("conn", "ServerTrace"), ("count", "CountTrace")):
            res = tlc_trace(prefix + "." + suffix + ".ndjson", spec=spec, name="c20-%d-%s" % (i, suffix))
            out.append(({"driver": "cfg-suite", "args": [str(a) for a in args], "spec": spec, "desc": "config %s %s" % (c, suffix)}, res))
        return c, st, out
    summaries = {}
    for c, st, out in parallel(one, list(enumerate(configs)), workers=6):
        for job, res in out:
            # every rule of the three contracts counts for C20: the behaviour must be the contract's under every configuration
            for v in res.get("violations", []):
                v["tags"] = sorted(set(v.get("tags", [])) | {"C20"})
            run.add_result(job, res)
        run.traces += 4
        summaries[json.dumps(c, sort_keys=True)] = st.get("summaries", [])
    # the same programs must produce the same answers (CAS values aside) under every configuration: compared by TLC
    cmp_file = os.path.join(d, "configs.ndjson")
    with open(cmp_file, "w") as f:
        keys = sorted(summaries)
        nprog = min(len(summaries[k]) for k in keys)
        for pi in range(nprog):
            f.write(json.dumps({"e": "program", "id": pi + 1}) + "\n")
            for k in keys:
                f.write(json.dumps({"e": "config", "cfg": k, "summary": summaries[k][pi]}) + "\n")
    res = tlc_trace(cmp_file, spec="ConfigTrace", name="c20-compare")
    run.add_result({"driver": "cfg-suite", "args": [], "spec": "ConfigTrace", "desc": "cross-configuration comparison"}, res)
    run.samples.append({"configurations": configs[:4]})
    run.extra["configurations"] = len(configs)
    return run.finish(ASSUME_SRV + ["C20: the memcrsd binary built from /repo is started with each command line; programs without clock control (TTL 0) plus one real-time TTL probe with margins >= 0.8 s around the 1 Hz tick"],
                      required=["same.answers", "served", "finish", "incr.exact", "add.exactly.one"])


def run_conc(pid, tier, seed, replay):
    run = Run(pid, tier, seed)
    build_harness()
    d = run.dir
    quick = tier == "quick"
    if replay:
        rp = json.load(open(replay))
        job, res = job_trace(rp["args"], "MemcLin", "replay.ndjson", d, "replay", lin=True)
        absorb_lin(run, job, res)
        return run.finish(ASSUME_CONC)
    kind = "C04" if pid == "C04" else "C03"
    # 1. exhaustive: every interleaving of the model is linearizable, terminates, and never deadlocks
    if pid in ("C03", "C16"):
        run.add_mc("MC_Conc", "MC_Conc_C03_2", workers=8)
        if not quick:
            run.add_mc("MC_Conc", "MC_Conc_C03_3", workers=12)
    if pid == "C16":
        # the key stripes: lock_key against flushes that take every stripe one after the other (a step per stripe): no deadlock,
        # termination; "take what is free first, then wait" must deadlock
        run.add_mc("MemcStripes", "MC_Stripes", workers=8)
        run.add_mc("MemcStripes", "MC_Stripes3", workers=4)
        r = tlc_mc("MemcStripes", "MC_Stripes_trylock", workers=6, timeout=600)
        if r["ok"] or "Deadlock" not in str(r["violated"]):
            raise ToolError("MemcStripes with the try-lock pass should deadlock (got %s)" % r["violated"])
        run.extra.setdefault("sensitivity", []).append("MemcStripes with Ordered = FALSE deadlocks, as expected")
        run.add_mc("MemcEvict", "MC_Evict", workers=8)           # eviction sweeps: every store returns
        if not quick:
            run.add_mc("MemcEvict", "MC_Evict3", workers=12, timeout=3000)
    if pid in ("C04", "C16"):
        run.add_mc("MC_Conc", "MC_Conc_C04_2", workers=8)
        if not quick:
            run.add_mc("MC_Conc", "MC_Conc_C04_3", workers=12, timeout=3000)
    # the model without the repairs must fail (the invariant is not vacuous)
    for cfg, what in (("MC_Conc_nolock", "key lock"), ("MC_Conc_norecheck", "expiry re-check")):
        if (pid == "C04") == (cfg == "MC_Conc_nolock") or pid == "C16":
            r = tlc_mc("MC_Conc", cfg, workers=6, timeout=600)
            if r["ok"]:
                raise ToolError("MemcConc without the %s should violate Linearizable" % what)
            run.extra.setdefault("sensitivity", []).append("MemcConc without the %s violates %s" % (what, r["violated"]))
    # 2. spec -> code: TLC schedules replayed step for step
    r = tlc_mc("MC_Conc", "GEN_Conc" if kind == "C04" else "GEN_Conc03", workers=1, timeout=600, name="GEN_Conc_" + pid,
               extra=["-simulate", "num=%d" % (300 if quick else 3000), "-depth", "40", "-seed", str(seed)])
    scheds = sorted(set(json.loads(l.strip())[len("SCHED "):] for l in open(r["out_file"]) if l.startswith('"SCHED ')))
    sp = os.path.join(d, "scheds.json")
    open(sp, "w").write("\n".join(scheds) + "\n")
    jobs = [(["conc-replay", "--scheds", sp], "MemcLin", "replay-tlc.ndjson", "TLC schedules replayed", None)]
    # 3. code -> spec: all schedules of all 2-client programs on the real crate, sampled larger programs
    parts = 8
    kinds = [kind] if pid != "C16" else ["C03", "C04"]
    for k in kinds:
        for p in range(parts):
            jobs.append((["conc", "--kind", k, "--set", "pairs", "--part", p, "--parts", parts, "--max-runs", 4000], "MemcLin",
                         "pairs-%s-%d.ndjson" % (k, p), "all schedules of 2-client programs %s part %d" % (k, p), None))
        jobs.append((["conc", "--kind", k, "--set", "swarms", "--max-runs", 600 if quick else 20000, "--random-runs", 300], "MemcLin",
                     "swarms-%s.ndjson" % k, "3 clients issuing the same command", None))
        # (the thorough tier: four jobs of 40 programs with seeds of their own - the exploration is single-threaded)
        for sp in range(1 if quick else (2 if pid == "C16" else 4)):
            jobs.append((["conc", "--kind", k, "--set", "sampled", "--count", 12 if quick else 40, "--seed", seed + 1000 * sp, "--max-runs", 300 if quick else 3000, "--random-runs", 100],
                         "MemcLin", "sampled-%s-%d.ndjson" % (k, sp), "sampled 2x2 / 3-client programs #%d" % sp, None))
    # the store engine on its own (Cache trait object, below MemcStore's key lock): get / set / CAS-set / delete
    if pid in ("C03", "C16"):
        for p in range(4):
            jobs.append((["conc", "--kind", "C03", "--set", "pairs", "--layer", "cache", "--part", p, "--parts", 4, "--max-runs", 4000], "MemcLin",
                         "cache-pairs-%d.ndjson" % p, "all schedules of 2-client programs on the Cache layer, part %d" % p, None))
        jobs.append((["conc", "--kind", "C03", "--set", "swarms", "--layer", "cache", "--max-runs", 600 if quick else 20000, "--random-runs", 300], "MemcLin",
                     "cache-swarms.ndjson", "3 CAS-stores with the same CAS on the Cache layer", None))
    # OS-scheduled threads (3-5, up to 8 commands) hammering one key, barrier-separated rounds, no scheduler
    for k in kinds:
        for i in range(2 if quick else 10):
            jobs.append((["conc-stress", "--kind", k, "--count", 30 if quick else 100, "--rounds", 20 if quick else 50, "--seed", seed * 10 + i], "MemcLin",
                         "stress-%s-%d.ndjson" % (k, i), "OS-thread stress %s #%d" % (k, i), None))
    if pid == "C16":
        # many OS threads hammering the store for a while, then a flush: every command returns (watchdog)
        jobs.append((["conc-hammer", "--threads", 8, "--ops", 20000 if quick else 100000, "--rounds", 2 if quick else 6], "MemcLin",
                     "hammer.ndjson", "8 OS threads x 20000 commands, then flush", None))
        # (the thorough tier: four jobs of 25 programs with seeds of their own - the exploration is single-threaded)
        for ep in range(1 if quick else 4):
            jobs.append((["conc", "--kind", "C16", "--set", "eviction", "--count", 20 if quick else 25, "--seed", seed + 500 * ep, "--max-runs", 300 if quick else 2000, "--random-runs", 100],
                         "MemcLin", "eviction-%d.ndjson" % ep, "stores under eviction pressure, flushes #%d" % ep, None))

    def one(j):
        return job_trace(j[0], j[1], j[2], d, j[3], lin=True)
    for job, res in parallel(one, jobs, workers=10):
        absorb_lin(run, job, res)
    if pid == "C03":
        job, res = job_trace(["conc-casuniq", "--threads", 8, "--ops", 50000 if quick else 300000, "--rounds", 3 if quick else 10], "CountTrace",
                             "casuniq.ndjson", d, "CAS uniqueness across keys, OS threads")
        run.add_result(job, res)
        run.traces += 1
    if pid == "C04":
        # the counting clauses on the memcrsd binary: 8 connections at once on the same keys, spread over the listener
        # threads (current-thread) / workers (multi-thread); judged by CountTrace
        binp = build_memcrsd()
        hjobs = []
        for i, (rt, th) in enumerate([("current-thread", 4), ("multi-thread", 4)] + ([] if quick else [("current-thread", 8), ("current-thread", 2), ("multi-thread", 2)])):
            for k in range(1 if quick else 3):
                hjobs.append((["cfg-suite", "--bin", binp, "--runtime", rt, "--threads", th, "--policy", "none", "--memory", "512MiB", "--conn-limit", 8,
                               "--item-limit", 2048, "--count", 1, "--seed", seed * 10 + k, "--port", ports(60 + 3 * (i * 3 + k))], "CountTrace",
                              "hammer-%d-%d" % (i, k), "counting hammer on memcrsd %s/%d" % (rt, th), None))
        for job, res in parallel(lambda j: job_trace(j[0], j[1], j[2], d, j[3]), hjobs, workers=4):
            run.add_result(job, res)
            run.traces += 1
    run.extra["tlc_schedules_replayed"] = len(scheds)
    return run.finish(ASSUME_CONC, required=["history.linearizable"] + (["incr.exact", "append.all.once", "add.exactly.one", "delete.final"] if pid == "C04" else []))


def absorb_lin(run, job, res):
    """Turns the MemcLin result (accepted / rejected histories) into violations of the running property."""
    res.setdefault("violations", [])
    res.setdefault("coverage", [])
    h = res.get("harness", {})
    run.extra["schedules_executed"] = run.extra.get("schedules_executed", 0) + int(h.get("runs", 0) or h.get("schedules", 0) or 0)
    run.extra["programs_exhausted"] = run.extra.get("programs_exhausted", 0) + int(h.get("exhausted", 0) or 0)
    run.traces += res.get("histories", 0)
    res["coverage"] = [["history.linearizable", len(res.get("accepted", []))]]
    for dline in res.get("drift", []) or []:
        res["violations"].append({"tags": ["DRIFT"], "rule": "schedule.mismatch", "line": dline})
    for rej in res.get("rejected", []):
        desc = conclib.describe(rej)
        incomplete = rej["outcome"] not in ("Complete", "none")
        # with eviction on, a history is only required to complete (C16) and to respect the memory bound at
        # quiescence (C14): MemcLin's relaxed mode rejects a complete one only for the bound
        if desc.get("kind") in ("C16", "C14") and not incomplete:
            res["violations"].append({"tags": ["C14", "C15"], "rule": "bound.or.accounting.wrong.at.quiescence", "line": rej["line"],
                                      "name": desc["name"], "init": desc["init"]})
            continue
        tags = {"C16"} if incomplete else ({desc["kind"]} if desc["kind"] in ("C04", "C08", "C19") else {"C03"})
        if incomplete and desc.get("kind") in ("C16", "C14"):
            tags.add("C14")        # "eviction always terminates": these programs are stores under eviction pressure
        if not incomplete:
            tags |= set(getattr(run, "lin_tags", ()))   # the property this selection of programs was made for
        if desc.get("init") == "expired" and not incomplete:
            tags.add("C05")        # an expired item was returned / treated as present (or an acknowledged successor lost)
        if incomplete:
            rule = "did.not.complete." + rej["outcome"]
        else:
            # nonserial: linearizable against the (permissive) contract, but no one-at-a-time execution of the
            # server itself shows this outcome
            rule = ("not.serializable." if rej.get("nonserial") else "not.linearizable.") + "+".join(desc["ops"])
        res["violations"].append({"tags": sorted(tags), "rule": rule, "line": rej["line"], "name": desc["name"], "init": desc["init"]})
    run.add_result(job, res)
    if not run.samples and res.get("histories", 0):
        try:
            evs = read_ndjson(res["trace_file"])
            run.samples.append({"history": evs[1:8]})
        except Exception:
            pass


def conc_eviction_extra(pid, tier, seed):
    """C14 (concurrent clause): stores under eviction pressure from 2-3 clients under the scheduler; stored bytes at
    quiescence within L + one record per store in flight.  Returns (violations, coverage addition)."""
    run = Run(pid, tier, seed)
    run.dir = workdir("check-" + pid + "-conc")
    quick = tier == "quick"
    # exhaustive: the model of concurrent stores + eviction sweeps (one action per yield point): termination, the
    # bound and the exact accounting at quiescence, a sweep never takes the record its own store wrote
    run.add_mc("MemcEvict", "MC_Evict", workers=8)
    if not quick:
        run.add_mc("MemcEvict", "MC_Evict3", workers=12, timeout=3000)
    # the concurrent model with the byte counter and the clock as a client: a lookup collecting an expired record, a store of
    # another size and a tick, every interleaving: the counter is exact when everybody has finished; it is not if the
    # collection accounts for the caller's earlier copy instead of the entry it removed
    run.add_mc("MC_Conc", "MC_Conc_clock", workers=8)
    r2 = tlc_mc("MC_Conc", "MC_Conc_collectcopy", workers=6, timeout=600)
    if r2["ok"] or r2["violated"] != "AcctExact":
        raise ToolError("MemcConc accounting the caller's copy in the expiry collection should violate AcctExact (got %s)" % r2["violated"])
    jobs = []
    for i in range(2 if quick else 8):
        jobs.append((["conc", "--kind", "C14", "--set", "eviction", "--count", 15 if quick else 60, "--seed", seed * 10 + i,
                      "--max-runs", 400 if quick else 3000, "--random-runs", 100], "MemcLin", "evict-%d.ndjson" % i,
                     "concurrent stores under eviction pressure #%d" % i, None))
    # accounting under races with the clock: an expired record being collected, a store of another size, and a second
    # passing at any point (all schedules of 60 three-client programs)
    for p in range(4):
        jobs.append((["conc", "--kind", "C14", "--set", "clocked", "--part", p, "--parts", 4, "--max-runs", 400 if quick else 6000, "--random-runs", 60], "MemcLin",
                     "clocked-%d.ndjson" % p, "lazy collection racing stores and the clock, part %d" % p, None))

    def one(j):
        return job_trace(j[0], j[1], j[2], run.dir, j[3], lin=True)
    for job, res in parallel(one, jobs, workers=6):
        absorb_lin(run, job, res)
    # the memcrsd binary with --eviction-policy random --memory-limit 64KiB / 200KiB under both runtime types: the limit
    # given on the command line is the one the eviction works with (four times the limit is offered; judged by CountTrace)
    binp = build_memcrsd()
    pjobs = []
    for i, (rt, th, memarg, lim) in enumerate([("current-thread", 2, "64KiB", 65536), ("multi-thread", 4, "200KiB", 204800)] +
                                              ([] if quick else [("current-thread", 8, "1MiB", 1 << 20), ("multi-thread", 1, "65536", 65536)])):
        pjobs.append((["cfg-suite", "--bin", binp, "--runtime", rt, "--threads", th, "--policy", "random", "--memory", memarg, "--mem-probe", lim,
                       "--conn-limit", 8, "--item-limit", 2048, "--count", 1, "--seed", seed, "--port", ports(40 + 2 * i)], "CountTrace",
                      "memprobe-%d.ndjson" % i, "memory limit %s on memcrsd %s/%d" % (memarg, rt, th), None))
    for job, res in parallel(lambda j: job_trace(j[0], j[1], j[2], run.dir, j[3]), pjobs, workers=4):
        run.add_result(job, res)
        run.traces += 1
    if not run.cov.get("memory.limit.enforced"):
        if not run.bad:
            raise ToolError("vacuous memory-limit probe for %s" % pid)
    bad = []
    for (job, res, v) in run.bad:
        if len(bad) < 4:
            path = write_replay(pid, {"driver": job.get("driver"), "args": job.get("args"), "spec": job.get("spec", "MemcLin"), "property": pid, "violation": v})
            log("VIOLATION property=%s replay=%s" % (pid, path))
            log("  %s: %s" % (job.get("desc"), json.dumps(v)[:200]))
        bad.append(v)
    return len(bad), {"concurrent_eviction": {"histories": run.traces, "schedules_executed": run.extra.get("schedules_executed", 0),
                                              "accepted": run.cov.get("history.linearizable", 0),
                                              "memory_limit_probes_on_the_binary": run.cov.get("memory.limit.enforced", 0),
                                              "mc_runs": [{"cfg": r["cfg"], "distinct": r["distinct"], "generated": r["generated"]} for r in run.mc]}}


def conc_extra(pid, tier, seed):
    """Concurrent clauses of sequentially phrased properties, decided like C03/C04: every schedule of 2-client programs on the
    real crate (deterministic scheduler at the yield points of the instrumented store), each history judged by MemcLin.
      C01  get / set / CAS-set / delete racing each other and the lazy collection of an expired predecessor
           (an acknowledged store is never undone by somebody else's retrieval)
      C08  delete / immediate flush / delayed flush racing everything that rewrites a record; the final reads come after
           the delay has run out
      C19  quiet commands racing each other and loud ones: silence rules and effects under every interleaving"""
    run = Run(pid, tier, seed)
    run.dir = workdir("check-" + pid + "-conc")
    run.lin_tags = {pid}
    # (C02: CAS-conditional stores racing each other and plain stores; C06 / C07: the conditional stores and the counter commands
    # as read-modify-write commands under every schedule - a history that is not linearizable breaks their statements too)
    kind = {"C01": "C03", "C02": "C03", "C06": "C04", "C07": "C04"}.get(pid, pid)
    quick = tier == "quick"
    jobs = []
    parts = 6
    for p in range(parts):
        jobs.append((["conc", "--kind", kind, "--set", "pairs", "--part", p, "--parts", parts, "--max-runs", 3000 if quick else 20000], "MemcLin",
                     "pairs-%s-%d.ndjson" % (kind, p), "all schedules of 2-client programs %s part %d" % (kind, p), None))
    for i in range(1 if quick else 6):
        jobs.append((["conc-stress", "--kind", kind, "--count", 30 if quick else 100, "--rounds", 10 if quick else 40, "--seed", seed * 10 + i], "MemcLin",
                     "stress-%d.ndjson" % i, "OS-thread stress %s #%d" % (kind, i), None))
    extra = {}
    if pid == "C19":
        # quiet commands in the concurrent model: linearizable (silence rules included) and serially equivalent
        r = run.add_mc("MC_Conc", "MC_Conc_C19_2", workers=8)
        extra["mc_runs"] = [{"cfg": r["cfg"], "distinct": r["distinct"], "generated": r["generated"], "wall_s": round(r["wall_s"], 1)}]
    if pid == "C08":
        # the concurrent model with flush actions: linearizable AND equivalent to a serial run of the sequential model;
        # without the stripe locks around flush the second must fail (a flush inside an append)
        r = run.add_mc("MC_Conc", "MC_Conc_C08_2", workers=8)
        r2 = tlc_mc("MC_Conc", "MC_Conc_noflushlock", workers=6, timeout=600)
        if r2["ok"] or r2["violated"] != "SerialEquiv":
            raise ToolError("MemcConc without the stripe locks around flush should violate SerialEquiv (got %s)" % r2["violated"])
        extra["mc_runs"] = [{"cfg": r["cfg"], "distinct": r["distinct"], "generated": r["generated"], "wall_s": round(r["wall_s"], 1)}]
        extra["sensitivity"] = "MemcConc with FlushLock = FALSE violates SerialEquiv (and not Linearizable), as expected"
        # spec -> code: TLC schedules of the flush programs replayed step for step
        g = tlc_mc("MC_Conc", "GEN_Conc08", workers=1, timeout=600, name="GEN_Conc_" + pid,
                   extra=["-simulate", "num=%d" % (200 if quick else 2000), "-depth", "40", "-seed", str(seed)])
        scheds = sorted(set(json.loads(l.strip())[len("SCHED "):] for l in open(g["out_file"]) if l.startswith('"SCHED ')))
        sp = os.path.join(run.dir, "scheds.json")
        open(sp, "w").write("\n".join(scheds) + "\n")
        jobs.append((["conc-replay", "--scheds", sp], "MemcLin", "replay-tlc.ndjson", "TLC schedules replayed", None))
        extra["tlc_schedules_replayed"] = len(scheds)

    def one(j):
        return job_trace(j[0], j[1], j[2], run.dir, j[3], lin=True)
    for job, res in parallel(one, jobs, workers=8):
        absorb_lin(run, job, res)
    if pid == "C02":
        # the CAS counter is shared by all keys: 8 free-running threads, each storing its own key (no acknowledged CAS is one
        # the key has carried before; a superseded CAS is never accepted) - judged by CountTrace
        job, res = job_trace(["conc-casuniq", "--threads", 8, "--ops", 50000 if quick else 300000, "--rounds", 3 if quick else 10], "CountTrace",
                             "casuniq.ndjson", run.dir, "CAS uniqueness across keys, OS threads")
        run.add_result(job, res)
        run.traces += 1
        extra["cas_uniqueness_rounds"] = run.cov.get("cas.unique.across.keys", 0)
    bad = []
    for (job, res, v) in run.bad:
        if len(bad) < 4:
            path = write_replay(pid, {"driver": job.get("driver"), "args": job.get("args"), "spec": job.get("spec", "MemcLin"), "property": pid, "violation": v})
            log("VIOLATION property=%s replay=%s" % (pid, path))
            log("  %s: %s" % (job.get("desc"), json.dumps(v)[:200]))
        bad.append(v)
    if not bad and not run.cov.get("history.linearizable", 0):
        raise ToolError("vacuous concurrent part for %s: no history was accepted" % pid)
    if run.drift:
        extra["model_drift"] = run.drift
    return len(bad), {"concurrent": dict({"histories": run.traces, "schedules_executed": run.extra.get("schedules_executed", 0),
                                          "programs_exhausted": run.extra.get("programs_exhausted", 0),
                                          "accepted": run.cov.get("history.linearizable", 0)}, **extra)}


def conc_expiry_extra(pid, tier, seed):
    """C05 under concurrency: every schedule of the 2-client programs whose key starts present-but-expired (lookups racing
    each other's lazy collection and racing stores), judged by MemcLin."""
    run = Run(pid, tier, seed)
    run.dir = workdir("check-" + pid + "-conc")
    jobs = []
    for k in ("C03", "C04"):
        for p in range(4):
            jobs.append((["conc", "--kind", k, "--set", "pairs", "--init", "expired", "--part", p, "--parts", 4, "--max-runs", 4000], "MemcLin",
                         "expired-%s-%d.ndjson" % (k, p), "all schedules, key expired, %s part %d" % (k, p), None))
    jobs.append((["conc-stress", "--kind", "C04", "--count", 30, "--rounds", 10, "--seed", seed], "MemcLin", "stress.ndjson", "OS-thread stress", None))

    def one(j):
        return job_trace(j[0], j[1], j[2], run.dir, j[3], lin=True)
    for job, res in parallel(one, jobs, workers=8):
        absorb_lin(run, job, res)
    bad = []
    for (job, res, v) in run.bad:
        path = write_replay(pid, {"driver": job.get("driver"), "args": job.get("args"), "spec": "MemcLin", "property": pid, "violation": v})
        log("VIOLATION property=%s replay=%s" % (pid, path))
        log("  %s: %s" % (job.get("desc"), json.dumps(v)[:200]))
        bad.append(v)
    return len(bad), {"concurrent_expiry": {"histories": run.traces, "schedules_executed": run.extra.get("schedules_executed", 0),
                                            "accepted": run.cov.get("history.linearizable", 0)}}
