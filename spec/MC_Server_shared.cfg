CONSTANTS
  Conns = {c1, c2, c3, c4}
  Listeners = {l1, l2}
  Limit = 2
  Shared = TRUE
  Ways = {"quit", "quitq", "midrequest", "protoerr", "oversize", "idle", "idlemid"}
SPECIFICATION Spec
INVARIANT LimitEnforced
INVARIANT Conservation
INVARIANT ReleasedOnce
PROPERTY EventuallyServed
PROPERTY AllReturned
CHECK_DEADLOCK FALSE
