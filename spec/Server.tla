------------------------------- MODULE Server -------------------------------
(***************************************************************************)
(* The accept loop and the connection-limit semaphore of memc-rs           *)
(*   memcache_server/memc_tcp.rs     run: accept ; acquire().forget() ;    *)
(*                                   spawn(client.handle())                *)
(*   memcache_server/client_handler.rs  Drop for Client: add_permits(1)    *)
(*   memcache_server/runtime_builder.rs one listener per thread in         *)
(*                                   current-thread mode                   *)
(* one action per step of that code, and the properties of C17 (and the    *)
(* configuration independence of C20: the number of listener threads must  *)
(* not change what is enforced).                                           *)
(*                                                                         *)
(* A connection is  idle -> queued (in the listen backlog) -> held (taken  *)
(* by a listener that is waiting for a permit) -> serving -> ended ->      *)
(* released.  A client may go away at any time; a connection whose client  *)
(* went away before it was served still runs through the server (its task  *)
(* ends at the first read).                                                *)
(***************************************************************************)
EXTENDS Naturals, FiniteSets, Sequences, TLC

CONSTANTS Conns,        \* connection ids
          Listeners,    \* listener ids (1 in multi-thread mode, N in current-thread mode)
          Limit,        \* configured connection limit
          Shared,       \* TRUE: all listeners share one semaphore (as the property demands)
          Ways          \* the ways a served connection can end

VARIABLES cstate,       \* [Conns -> {"idle","queued","held","serving","ended","released"}]
          gone,         \* [Conns -> BOOLEAN]  the client side has gone away
          way,          \* [Conns -> how the connection ended]
          holder,       \* [Listeners -> connection it holds, or "none"]
          permits,      \* [semaphore id -> available permits]
          sem,          \* [Conns -> semaphore its listener uses]
          released      \* [Conns -> number of times its permit was given back]  (history)
vars == <<cstate, gone, way, holder, permits, sem, released>>

SemOf(l) == IF Shared THEN "s" ELSE l
Sems == IF Shared THEN {"s"} ELSE Listeners

Init == /\ cstate = [c \in Conns |-> "idle"]
        /\ gone = [c \in Conns |-> FALSE]
        /\ way = [c \in Conns |-> "none"]
        /\ holder = [l \in Listeners |-> "none"]
        /\ permits = [s \in Sems |-> Limit]
        /\ sem = [c \in Conns |-> "none"]
        /\ released = [c \in Conns |-> 0]

Connect(c) == /\ cstate[c] = "idle"
              /\ cstate' = [cstate EXCEPT ![c] = "queued"]
              /\ UNCHANGED <<gone, way, holder, permits, sem, released>>

(* listener l takes connection c off the backlog and builds its Client *)
Accept(l, c) == /\ holder[l] = "none" /\ cstate[c] = "queued"
                /\ holder' = [holder EXCEPT ![l] = c]
                /\ cstate' = [cstate EXCEPT ![c] = "held"]
                /\ sem' = [sem EXCEPT ![c] = SemOf(l)]
                /\ UNCHANGED <<gone, way, permits, released>>

(* acquire().await.forget() ; tokio::spawn *)
Acquire(l) == /\ holder[l] # "none" /\ permits[SemOf(l)] > 0
              /\ permits' = [permits EXCEPT ![SemOf(l)] = @ - 1]
              /\ cstate' = [cstate EXCEPT ![holder[l]] = "serving"]
              /\ holder' = [holder EXCEPT ![l] = "none"]
              /\ UNCHANGED <<gone, way, sem, released>>

(* the client goes away (close, reset) - at any time *)
ClientGone(c) == /\ cstate[c] \in {"queued", "held", "serving"} /\ ~gone[c]
                 /\ gone' = [gone EXCEPT ![c] = TRUE]
                 /\ UNCHANGED <<cstate, way, holder, permits, sem, released>>

(* the connection task leaves its loop: one of the listed ways, or because the client has gone *)
End(c, w) == /\ cstate[c] = "serving"
             /\ (w = "close") = gone[c]
             /\ cstate' = [cstate EXCEPT ![c] = "ended"]
             /\ way' = [way EXCEPT ![c] = w]
             /\ UNCHANGED <<gone, holder, permits, sem, released>>

(* Drop for Client: add_permits(1) *)
Release(c) == /\ cstate[c] = "ended"
              /\ cstate' = [cstate EXCEPT ![c] = "released"]
              /\ permits' = [permits EXCEPT ![sem[c]] = @ + 1]
              /\ released' = [released EXCEPT ![c] = @ + 1]
              /\ UNCHANGED <<gone, way, holder, sem>>

Next == \/ \E c \in Conns : Connect(c) \/ ClientGone(c) \/ Release(c)
        \/ \E l \in Listeners, c \in Conns : Accept(l, c)
        \/ \E l \in Listeners : Acquire(l)
        \/ \E c \in Conns, w \in Ways \cup {"close"} : End(c, w)

Fairness == /\ \A l \in Listeners : WF_vars(Acquire(l)) /\ \A c \in Conns : WF_vars(Accept(l, c))
            /\ \A c \in Conns : WF_vars(Release(c))
            /\ \A c \in Conns : WF_vars(\E w \in Ways \cup {"close"} : End(c, w))      \* every served connection ends (idle timeout at the latest)
Spec == Init /\ [][Next]_vars /\ Fairness

(***************************************************************************)
(* C17                                                                     *)
(***************************************************************************)
Serving == {c \in Conns : cstate[c] = "serving"}
Holding == {c \in Conns : cstate[c] \in {"serving", "ended"}}       \* permit taken and not yet given back
TotalPermits == LET RECURSIVE Sum(_)
                    Sum(S) == IF S = {} THEN 0 ELSE LET s == CHOOSE x \in S : TRUE IN permits[s] + Sum(S \ {s})
                IN  Sum(Sems)
(* at most connection-limit connections are served at a time *)
LimitEnforced == Cardinality(Serving) <= Limit
(* no permit is lost or duplicated *)
Conservation == TotalPermits + Cardinality(Holding) = Limit * Cardinality(Sems)
ReleasedOnce == \A c \in Conns : released[c] <= 1 /\ (cstate[c] = "released" <=> released[c] = 1)
(* a waiting connection is picked up as soon as a slot frees, and every slot comes back *)
EventuallyServed == \A c \in Conns : (cstate[c] \in {"queued", "held"}) ~> (cstate[c] \in {"serving", "ended", "released"})
AllReturned == \A c \in Conns : (cstate[c] = "serving") ~> (cstate[c] = "released")
=============================================================================
