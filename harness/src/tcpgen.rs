//! Generators of frame streams for the socket-level driver.
use crate::proto::Frame;
use crate::wire::{canonical_frame, frame_for, invalid_frame, odd_frame, Stream};
use rand::rngs::SmallRng;
use rand::seq::SliceRandom;
use rand::Rng;

fn loud_probe(rng: &mut SmallRng, opq: u32) -> Frame {
    // a loud store + so that later execution is visible in the store as well as in the answers
    let k = format!("p{}", rng.gen_range(0..3));
    let mut ex = Vec::new();
    ex.extend_from_slice(&7u32.to_be_bytes());
    ex.extend_from_slice(&0u32.to_be_bytes());
    Frame::consistent(0x01, &ex, k.as_bytes(), format!("v{}", opq).as_bytes(), opq, 0)
}

pub fn oversize_frame(rng: &mut SmallRng, opq: u32, limit: u32, body: u32) -> Frame {
    // any opcode the header check lets through (C13: "for every opcode"), the common ones more often
    let op = if rng.gen_bool(0.5) { *[0x01u8, 0x11, 0x02, 0x03, 0x0e, 0x0f, 0x00, 0x04, 0x05, 0x0a, 0x08, 0x1c, 0x10].choose(rng).unwrap() } else { rng.gen_range(0..37) as u8 };
    oversize_frame_op(op, opq, limit, body)
}

pub fn oversize_frame_op(op: u8, opq: u32, limit: u32, body: u32) -> Frame {
    let key = b"big";
    let (el, kl): (u8, u16) = match op {
        0x01 | 0x11 | 0x02 | 0x03 | 0x12 | 0x13 => (8, 3),
        0x05 | 0x06 | 0x15 | 0x16 => (20, 3),
        0x0a | 0x0b | 0x08 | 0x18 | 0x10 | 0x07 | 0x17 => (0, 0),
        0x1c | 0x1d | 0x1e => (4, 3),
        _ => (0, 3),
    };
    let mut b: Vec<u8> = Vec::with_capacity(body as usize);
    b.extend(std::iter::repeat(0u8).take(el as usize));
    if kl > 0 {
        b.extend_from_slice(key);
    }
    // the rest of the body looks like request headers, so that a skip that stops early is noticed
    let mut i = 0u32;
    while (b.len() as u32) < body {
        let noop = Frame::consistent(0x01, &[0, 0, 0, 0, 0, 0, 0, 0], b"inj", b"x", 0xbad0000 + i, 0).bytes();
        for x in noop {
            if (b.len() as u32) < body {
                b.push(x);
            }
        }
        i += 1;
    }
    let _ = limit;
    Frame { magic: 0x80, opcode: op, key_length: kl, extras_length: el, data_type: 0, vbucket: 0, body_length: body, opaque: opq, cas: 0, body: b }
}

pub fn gen_tcp_stream(profile: &str, name: &str, rng: &mut SmallRng) -> Stream {
    let mut frames = Vec::new();
    let mut opq: u32 = rng.gen_range(1..1000) * 1000;
    let mut limit = *[1024u32, 1024, 2048, 4096].choose(rng).unwrap();
    let maxval = 24;
    match profile {
        "tpipeline" => {
            for _ in 0..rng.gen_range(2..=6) {
                opq += 1;
                frames.push(canonical_frame(rng, opq, maxval));
            }
        }
        "tquit" => {
            let n = rng.gen_range(2..=5);
            let at = rng.gen_range(0..n);
            for i in 0..n {
                opq += 1;
                if i == at {
                    frames.push(Frame::consistent(*[0x07u8, 0x17].choose(rng).unwrap(), &[], &[], &[], opq, 0));
                } else if rng.gen_bool(0.5) {
                    frames.push(loud_probe(rng, opq));
                } else {
                    frames.push(canonical_frame(rng, opq, maxval));
                }
            }
        }
        "tunimpl" => {
            for _ in 0..rng.gen_range(2..=4) {
                opq += 1;
                if rng.gen_bool(0.5) {
                    frames.push(frame_for(*[0x1cu8, 0x1d, 0x1e, 0x20, 0x21, 0x22, 0x23, 0x24].choose(rng).unwrap(), rng, opq, maxval));
                } else {
                    frames.push(loud_probe(rng, opq));
                }
            }
        }
        "todd" => {
            let at = rng.gen_range(0..3);
            for i in 0..3 {
                opq += 1;
                frames.push(if i == at { if rng.gen_bool(0.6) { odd_frame(rng, opq) } else { invalid_frame(rng, opq) } } else { loud_probe(rng, opq) });
            }
        }
        "toversize" => {
            limit = *[1024u32, 1024, 2048].choose(rng).unwrap();
            let n = rng.gen_range(1..=4);
            let at = rng.gen_range(0..n);
            for i in 0..n {
                opq += 1;
                if i == at {
                    let body = *[limit + 1, limit + 1, limit + 2, 2 * limit, 3 * limit + 7].choose(rng).unwrap();
                    frames.push(oversize_frame(rng, opq, limit, body));
                } else if rng.gen_bool(0.3) {
                    // a body of exactly the limit / one below is never refused
                    let vlen = limit as usize - 8 - 2 - (if rng.gen_bool(0.5) { 0 } else { 1 });
                    let mut ex = Vec::new();
                    ex.extend_from_slice(&1u32.to_be_bytes());
                    ex.extend_from_slice(&0u32.to_be_bytes());
                    frames.push(Frame::consistent(0x01, &ex, b"at", &vec![b'z'; vlen], opq, 0));
                } else {
                    frames.push(loud_probe(rng, opq));
                }
            }
        }
        "toversweep" => {
            // one stream per opcode 0x00..=0x24 (by the stream's number): the oversized frame first or second,
            // then requests that must be served normally
            limit = *[1024u32, 2048].choose(rng).unwrap();
            let idx: usize = name.rsplit('-').next().and_then(|x| x.parse().ok()).unwrap_or(0);
            let op = (idx % 37) as u8;
            if rng.gen_bool(0.5) {
                opq += 1;
                frames.push(loud_probe(rng, opq));
            }
            opq += 1;
            let body = *[limit + 1, limit + 2, 2 * limit, 3 * limit + 7].choose(rng).unwrap();
            let mut of = oversize_frame_op(op, opq, limit, body);
            // the size test comes before every other look at the header: key / extras lengths that would be
            // refused in a frame within the limit do not matter here
            if rng.gen_bool(0.4) {
                let (kl, el) = *[(251u16, 8u8), (1000, 8), (3, 21), (65535, 255), (0, 0), (300, 0)].choose(rng).unwrap();
                of.key_length = kl;
                of.extras_length = el;
            }
            frames.push(of);
            opq += 1;
            frames.push(loud_probe(rng, opq));
            opq += 1;
            frames.push(Frame::consistent(0x00, &[], b"p0", &[], opq, 0));
        }
        "tslow" => {
            // answers far larger than the socket buffers: one large item read again and again, small requests in between
            limit = 1 << 20;
            let vlen = *[16 * 1024usize, 100 * 1024, 400 * 1024].choose(rng).unwrap();
            let val: Vec<u8> = (0..vlen).map(|i| (i * 31 % 251) as u8).collect();
            let mut ex = Vec::new();
            ex.extend_from_slice(&9u32.to_be_bytes());
            ex.extend_from_slice(&0u32.to_be_bytes());
            opq += 1;
            frames.push(Frame::consistent(0x01, &ex, b"slow", &val, opq, 0));
            let n = 12 * 1024 * 1024 / vlen;
            for i in 0..n {
                opq += 1;
                frames.push(Frame::consistent(if i % 5 == 4 { 0x0c } else { 0x00 }, &[], b"slow", &[], opq, 0));
                if i % 9 == 8 {
                    opq += 1;
                    frames.push(if rng.gen_bool(0.5) { loud_probe(rng, opq) } else { Frame::consistent(0x0b, &[], &[], &[], opq, 0) });
                }
            }
            // every other stream ends with quit: everything answered before it must still reach a client that reads late,
            // although the server closes the connection right after the last answer
            let idx: usize = name.rsplit('-').next().and_then(|x| x.parse().ok()).unwrap_or(0);
            if idx % 2 == 0 {
                opq += 1;
                frames.push(Frame::consistent(0x07, &[], &[], &[], opq, 0));
            }
        }
        "twrap" => {
            // a command that carries no value announcing extras + key + n * 65536 bytes (within a 1 MiB limit): lengths that
            // look right modulo 2^16.  The surplus is made of set frames for the key "inj", so that bytes of the frame's own
            // body taken for further requests show in the store
            limit = 1 << 20;
            opq += 1;
            frames.push(loud_probe(rng, opq));
            opq += 1;
            let (op, el, kl): (u8, u8, u16) = *[(0x00u8, 0u8, 2u16), (0x09, 0, 2), (0x04, 0, 2), (0x05, 20, 2), (0x0a, 0, 0), (0x0b, 0, 0), (0x08, 4, 0), (0x08, 0, 0), (0x07, 0, 0), (0x0c, 0, 2)].choose(rng).unwrap();
            let n = *[1usize, 1, 2, 15].choose(rng).unwrap();
            let mut b: Vec<u8> = vec![0u8; el as usize];
            if kl > 0 {
                b.extend_from_slice(b"p0");
            }
            let fixed = b.len();
            let mut i = 0u32;
            while b.len() < fixed + n * 65536 {
                let inj = Frame::consistent(0x01, &[0, 0, 0, 0, 0, 0, 0, 0], b"inj", b"x", 0xbad0000 + i, 0).bytes();
                for x in inj {
                    if b.len() < fixed + n * 65536 {
                        b.push(x);
                    }
                }
                i += 1;
            }
            frames.push(Frame { magic: 0x80, opcode: op, key_length: kl, extras_length: el, data_type: 0, vbucket: 0, body_length: b.len() as u32, opaque: opq, cas: 0, body: b });
            opq += 1;
            frames.push(loud_probe(rng, opq));
        }
        "tflip" => {
            // one corrupted header byte in an otherwise complete request that would remove or overwrite a probe item:
            // the request is invalid and must not be executed (C18); what was completely sent before it is
            limit = 1024;
            opq += 1;
            let p = loud_probe(rng, opq);
            let pk: Vec<u8> = p.body[8..10].to_vec();
            frames.push(p);
            if rng.gen_bool(0.5) {
                // (nothing that removes or rewrites items: the probe stores are the only mutations of these streams)
                opq += 1;
                frames.push(if rng.gen_bool(0.5) { Frame::consistent(0x00, &[], &pk, &[], opq, 0) } else { Frame::consistent(0x0a, &[], &[], &[], opq, 0) });
            }
            opq += 1;
            let which = rng.gen_range(0..4);
            let mut f = match which {
                0 | 1 => Frame::consistent(*[0x04u8, 0x14].choose(rng).unwrap(), &[], &pk, &[], opq, 0),
                2 => Frame::consistent(0x01, &[0u8; 8], &pk, b"overwritten", opq, 0),
                _ => Frame::consistent(0x0e, &[], &pk, b"+tail", opq, 0),
            };
            // (a longer body or a shorter key is a defect only where the command has no value to grow into)
            match if which <= 1 { rng.gen_range(0..7) } else { rng.gen_range(2..7) } {
                0 => f.body_length += *[1u32, 8, 24, 33].choose(rng).unwrap(),    // body length raised: the surplus is what follows (always there)
                1 => f.key_length -= 1,                                          // key length lowered: another key, a stray byte
                2 => f.key_length ^= 0x0100,                                     // a high bit
                3 => f.extras_length ^= *[1u8, 4, 0x10].choose(rng).unwrap(),
                4 => f.magic ^= *[1u8, 0x80, 0x01].choose(rng).unwrap(),
                5 => f.data_type ^= *[1u8, 0x80].choose(rng).unwrap(),
                _ => f.opcode ^= 0x40,
            }
            frames.push(f);
            for _ in 0..rng.gen_range(1..=2) {
                opq += 1;
                frames.push(loud_probe(rng, opq));
            }
        }
        "tbig" => {
            // large limits: the oversized body is much larger than one socket read
            limit = *[65536u32, 1 << 20, 4 << 20].choose(rng).unwrap();
            opq += 1;
            frames.push(loud_probe(rng, opq));
            opq += 1;
            let body = *[limit + 1, 2 * limit].choose(rng).unwrap();
            frames.push(oversize_frame(rng, opq, limit, body));
            opq += 1;
            frames.push(loud_probe(rng, opq));
        }
        _ => panic!("unknown tcp profile {}", profile),
    }
    Stream { name: name.to_string(), limit, frames, tail: vec![] }
}

/// segmentations for socket runs: fewer than at the decoder (each costs a connection)
pub fn tcp_segmentations(s: &Stream, mode: &str, rng: &mut SmallRng) -> Vec<Vec<usize>> {
    let n = s.bytes().len();
    let mut out: Vec<Vec<usize>> = vec![vec![n]];
    // frame boundaries and interesting offsets inside each frame
    let mut pts: Vec<usize> = Vec::new();
    let mut at = 0usize;
    for f in &s.frames {
        let fl = 24 + f.body.len();
        for d in [1usize, 12, 23, 24, 25, 24 + f.body.len() / 2, fl.saturating_sub(1), fl] {
            if d > 0 && d <= fl && at + d < n {
                pts.push(at + d);
            }
        }
        if f.body.len() > 64 {
            for _ in 0..6 {
                pts.push(at + 24 + rng.gen_range(0..f.body.len()));
            }
        }
        at += fl;
    }
    pts.sort();
    pts.dedup();
    let budget = match mode { "few" => 6, "single" => 40, _ => 200 };
    let mut singles = pts.clone();
    if mode == "all" && n <= 4000 {
        singles = (1..n).collect();
    }
    singles.shuffle(rng);
    singles.truncate(budget);
    for c in singles {
        out.push(vec![c]);
    }
    // pairs of cut points
    let npairs = match mode { "few" => 2, "single" => 10, _ => 60 };
    for _ in 0..npairs {
        if pts.len() >= 2 {
            let mut ab: Vec<usize> = pts.choose_multiple(rng, 2).cloned().collect();
            ab.sort();
            out.push(vec![ab[0], ab[1] - ab[0]]);
        }
    }
    if n <= 600 {
        out.push(vec![1; n]);
    } else {
        out.push(vec![997; n / 997 + 1]);
        out.push(vec![4096; n / 4096 + 1]);
    }
    for _ in 0..(if mode == "few" { 1 } else { 4 }) {
        let cuts = rng.gen_range(2..=5);
        let mut p: Vec<usize> = (0..cuts).map(|_| rng.gen_range(1..n.max(2))).collect();
        p.sort();
        p.dedup();
        let mut seg = Vec::new();
        let mut last = 0;
        for x in p {
            seg.push(x - last);
            last = x;
        }
        out.push(seg);
    }
    out
}
