CONSTANTS
  Clients = {1, 2}
  NStripes = 3
  Ordered = TRUE
SPECIFICATION Spec
INVARIANT TypeOK
INVARIANT Exclusive
PROPERTY Termination
