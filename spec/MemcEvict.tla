------------------------------ MODULE MemcEvict ------------------------------
(***************************************************************************)
(* Concurrent stores under the random eviction policy (C14 concurrent      *)
(* clause, C16 for eviction sweeps): several clients each store one record *)
(* - set(k, size) - through                                                *)
(*   MemcStore::set           memc.lock_key (stripe lock of the key)       *)
(*   MemoryStore::set         map.insert ; memory_usage.update             *)
(*   RandomPolicy::evict      while memory_usage() > limit:                *)
(*                               map.len ; (random index) ;                *)
(*                               MemoryStore::remove_if = map.iter (pick   *)
(*                               the index-th record that is not the one   *)
(*                               just written) ; map.remove ;              *)
(*                               memory_usage.update                       *)
(* one action per yield point of the instrumented crate.  Records are      *)
(* abstracted to their sizes.  The random index is a nondeterministic      *)
(* choice; because `len` is read before the iteration, the index can point *)
(* past the records that are still there (then nothing is removed and the  *)
(* loop goes round again).                                                 *)
(*                                                                         *)
(* Properties: every store returns (no deadlock, termination under weak    *)
(* fairness); a sweep never removes the record its own store has just      *)
(* written; with nothing in flight the accounted bytes equal the stored    *)
(* bytes and the stored bytes are at most the limit plus one record per    *)
(* store that was finishing concurrently.                                  *)
(***************************************************************************)
EXTENDS Integers, FiniteSets, Sequences, TLC

CONSTANTS Clients,      \* e.g. {1, 2, 3}
          Keys,         \* e.g. {"a", "b", "c"}
          Sizes,        \* record sizes a client may store
          InitSizes,    \* sizes the initial records may have (0 = absent)
          Limit

VARIABLES map,          \* [Keys -> size, 0 = absent]
          usage,        \* accounted bytes
          klock,        \* [Keys -> holder or 0]
          job,          \* [Clients -> [k, n]]  what each client stores
          pc, max, victim, removed

vars == <<map, usage, klock, job, pc, max, victim, removed>>

RECURSIVE Sum(_, _)
Sum(f, S) == IF S = {} THEN 0 ELSE LET x == CHOOSE y \in S : TRUE IN f[x] + Sum(f, S \ {x})
Bytes == Sum(map, Keys)
Present == {k \in Keys : map[k] > 0}

Init == /\ map \in [Keys -> InitSizes]
        /\ usage = Sum(map, Keys)
        /\ klock = [k \in Keys |-> 0]
        /\ job \in [Clients -> [k : Keys, n : Sizes]]
        /\ pc = [c \in Clients |-> "memc.lock_key"]
        /\ max = [c \in Clients |-> 0]
        /\ victim = [c \in Clients |-> "none"]
        /\ removed = [c \in Clients |-> 0]

K(c) == job[c].k
Goto(c, l) == pc' = [pc EXCEPT ![c] = l]

Lock(c) == /\ pc[c] = "memc.lock_key" /\ klock[K(c)] = 0
           /\ klock' = [klock EXCEPT ![K(c)] = c] /\ Goto(c, "map.insert")
           /\ UNCHANGED <<map, usage, job, max, victim, removed>>

Insert(c) == /\ pc[c] = "map.insert"
             /\ removed' = [removed EXCEPT ![c] = map[K(c)]]           \* the record this store replaces
             /\ map' = [map EXCEPT ![K(c)] = job[c].n]
             /\ Goto(c, "acct.store")
             /\ UNCHANGED <<usage, klock, job, max, victim>>

AcctStore(c) == /\ pc[c] = "acct.store"
                /\ usage' = (usage + job[c].n) - removed[c]
                /\ Goto(c, "evict.test")
                /\ UNCHANGED <<map, klock, job, max, victim, removed>>

(* The counter is an AtomicU64 updated with wrapping fetch_add / fetch_sub.  A sweep can remove - and      *)
(* account for - a record whose own store has not been accounted yet (the insertion is visible in the    *)
(* map before `account` runs), so the counter can transiently pass below zero, i.e. wrap to a huge       *)
(* value; a negative `usage` here stands for that.  It is exact again once every `account` has run.      *)
OverLimit == usage > Limit \/ usage < 0
(* while self.store.memory_usage() > self.memory_limit { let max = self.store.len(); ... *)
EvictTest(c) == /\ pc[c] = "evict.test"
                /\ IF OverLimit
                   THEN /\ max' = [max EXCEPT ![c] = Cardinality(Present)]      \* map.len
                        /\ Goto(c, IF Cardinality(Present) <= 1 THEN "unlock" ELSE "map.iter")
                   ELSE Goto(c, "unlock") /\ UNCHANGED max
                /\ UNCHANGED <<map, usage, klock, job, victim, removed>>

(* remove_if: the index-th record (index < max - 1) among those that are not the one just written *)
Iter(c) == /\ pc[c] = "map.iter"
           /\ LET others == Present \ {K(c)} IN
              \/ \E v \in others : victim' = [victim EXCEPT ![c] = v] /\ Goto(c, "map.remove")
              \/ /\ Cardinality(others) < max[c] - 1            \* the index points past what is left
                 /\ victim' = [victim EXCEPT ![c] = "none"] /\ Goto(c, "evict.test")
           /\ UNCHANGED <<map, usage, klock, job, max, removed>>

Remove(c) == /\ pc[c] = "map.remove"
             /\ removed' = [removed EXCEPT ![c] = map[victim[c]]]       \* 0 if somebody else took it meanwhile
             /\ map' = [map EXCEPT ![victim[c]] = 0]
             /\ Goto(c, IF map[victim[c]] > 0 THEN "acct.evict" ELSE "evict.test")
             /\ UNCHANGED <<usage, klock, job, max, victim>>

AcctEvict(c) == /\ pc[c] = "acct.evict"
                /\ usage' = usage - removed[c]
                /\ Goto(c, "evict.test")
                /\ UNCHANGED <<map, klock, job, max, victim, removed>>

Unlock(c) == /\ pc[c] = "unlock"
             /\ klock' = [klock EXCEPT ![K(c)] = 0] /\ Goto(c, "done")
             /\ UNCHANGED <<map, usage, job, max, victim, removed>>

Next == \E c \in Clients : Lock(c) \/ Insert(c) \/ AcctStore(c) \/ EvictTest(c) \/ Iter(c) \/ Remove(c) \/ AcctEvict(c) \/ Unlock(c)
AllDone == \A c \in Clients : pc[c] = "done"
Finished == AllDone /\ UNCHANGED vars
Spec == Init /\ [][Next \/ Finished]_vars /\ WF_vars(Next)

(***************************************************************************)
TypeOK == usage \in Int /\ \A k \in Keys : map[k] \in Nat
(* a sweep never chooses the record its own store has written *)
NotOwnRecord == \A c \in Clients : victim[c] # K(c)
(* NOT an invariant (TLC shows it with 3 clients): the counter may transiently wrap, see OverLimit; listed as a  *)
(* watch item in DESIGN.md 6.3 - it can cause evictions without pressure during the window, no listed property  *)
(* quantifies over that (C15 is about sequential workloads), the bound and the exactness at quiescence hold.     *)
NoUnderflow == \A c \in Clients : pc[c] = "acct.evict" => usage >= removed[c]
(* with nothing in flight: accounting = content, and the bound of C14 *)
RECURSIVE SumJobs(_)
SumJobs(S) == IF S = {} THEN 0 ELSE LET c == CHOOSE x \in S : TRUE IN job[c].n + SumJobs(S \ {c})
Quiescent == AllDone => (usage = Bytes /\ Bytes <= Limit + SumJobs(Clients))
(* sharper: what is left above the limit is at most the largest record just written *)
MaxJob == CHOOSE n \in {job[c].n : c \in Clients} : \A c \in Clients : job[c].n <= n
QuiescentSharp == AllDone => Bytes <= Limit + MaxJob
Termination == <>AllDone
=============================================================================
