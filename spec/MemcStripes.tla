----------------------------- MODULE MemcStripes -----------------------------
(***************************************************************************)
(* The key-stripe locks of MemcStore (memcache/store.rs):                  *)
(*   lock_key(key)   one stripe, chosen by the key's hash                  *)
(*   flush           every stripe, taken one after the other in index      *)
(*                   order with blocking lock()                            *)
(* A single-key command holds its stripe for the whole command and then    *)
(* accesses the map (whose shard locks are taken and released inside one   *)
(* step and are never held while a stripe is requested); a flush holds all *)
(* stripes while it rewrites the map.                                      *)
(*                                                                         *)
(* C16: no deadlock, every command returns - for any number of commands    *)
(* per client, any mapping of keys to stripes, any number of overlapping   *)
(* flushes.  The acquisition of a flush is one step per stripe here (the   *)
(* deterministic scheduler of the harness sees it as one step), so TLC     *)
(* explores what happens inside it.                                        *)
(*                                                                         *)
(* Ordered = TRUE is the code.  Ordered = FALSE is the tempting variant    *)
(* "take what is free first, then wait for the rest": two flushes (or a    *)
(* flush and a writer that lets go at the wrong moment) then hold parts of *)
(* the stripe set and wait for each other - TLC finds the deadlock.        *)
(***************************************************************************)
EXTENDS Naturals, FiniteSets, Sequences, TLC

CONSTANTS Clients,      \* e.g. {1, 2, 3}
          NStripes,     \* e.g. 2 or 3
          Ordered       \* TRUE: blocking lock in index order (the code)

Stripes == 1..NStripes
Cmds == {[op |-> "key", s |-> s] : s \in Stripes} \cup {[op |-> "flush", s |-> 0]}

VARIABLES owner,        \* [Stripes -> client or 0]
          todo,         \* [Clients -> sequence of commands still to run]
          pc,           \* [Clients -> "idle" | "try" | "lock" | "work" ]
          at            \* [Clients -> next stripe index a flush looks at]
vars == <<owner, todo, pc, at>>

Init == /\ owner = [s \in Stripes |-> 0]
        /\ todo \in [Clients -> {<<a>> : a \in Cmds} \cup {<<a, b>> : a \in Cmds, b \in Cmds}]
        /\ pc = [c \in Clients |-> "idle"]
        /\ at = [c \in Clients |-> 1]

Cur(c) == Head(todo[c])
Begin(c) == /\ pc[c] = "idle" /\ todo[c] # <<>>
            /\ pc' = [pc EXCEPT ![c] = IF Cur(c).op = "flush" /\ ~Ordered THEN "try" ELSE "lock"]
            /\ at' = [at EXCEPT ![c] = 1]
            /\ UNCHANGED <<owner, todo>>

(* lock_key: blocking lock of the key's stripe *)
LockKey(c) == /\ pc[c] = "lock" /\ Cur(c).op = "key" /\ owner[Cur(c).s] = 0
              /\ owner' = [owner EXCEPT ![Cur(c).s] = c]
              /\ pc' = [pc EXCEPT ![c] = "work"]
              /\ UNCHANGED <<todo, at>>

(* flush, the code: stripe `at` with a blocking lock, then the next one *)
LockNext(c) == /\ pc[c] = "lock" /\ Cur(c).op = "flush"
               /\ IF at[c] > NStripes THEN pc' = [pc EXCEPT ![c] = "work"] /\ UNCHANGED <<owner, at>>
                  ELSE IF owner[at[c]] = c THEN at' = [at EXCEPT ![c] = @ + 1] /\ UNCHANGED <<owner, pc>>      \* (taken in the try pass)
                  ELSE /\ owner[at[c]] = 0
                       /\ owner' = [owner EXCEPT ![at[c]] = c]
                       /\ at' = [at EXCEPT ![c] = @ + 1]
                       /\ UNCHANGED pc
               /\ UNCHANGED todo

(* flush, the variant: a first pass that takes whatever is free without waiting *)
TryNext(c) == /\ pc[c] = "try"
              /\ IF at[c] > NStripes THEN pc' = [pc EXCEPT ![c] = "lock"] /\ at' = [at EXCEPT ![c] = 1] /\ UNCHANGED owner
                 ELSE /\ owner' = IF owner[at[c]] = 0 THEN [owner EXCEPT ![at[c]] = c] ELSE owner
                      /\ at' = [at EXCEPT ![c] = @ + 1]
                      /\ UNCHANGED pc
              /\ UNCHANGED todo

(* the command does its work and lets go of everything it holds *)
Finish(c) == /\ pc[c] = "work"
             /\ owner' = [s \in Stripes |-> IF owner[s] = c THEN 0 ELSE owner[s]]
             /\ todo' = [todo EXCEPT ![c] = Tail(@)]
             /\ pc' = [pc EXCEPT ![c] = "idle"]
             /\ UNCHANGED at

Next == \E c \in Clients : Begin(c) \/ LockKey(c) \/ LockNext(c) \/ TryNext(c) \/ Finish(c)
AllDone == \A c \in Clients : todo[c] = <<>>
Finished == AllDone /\ UNCHANGED vars
Spec == Init /\ [][Next \/ Finished]_vars /\ WF_vars(Next)

TypeOK == owner \in [Stripes -> Clients \cup {0}]
(* a command works only while it holds what it needs: its stripe / every stripe *)
Exclusive == \A c \in Clients : pc[c] = "work" =>
                 IF Cur(c).op = "flush" THEN \A s \in Stripes : owner[s] = c ELSE owner[Cur(c).s] = c
(* deadlock freedom: TLC's deadlock check (a state that is not finished and has no successor) *)
Termination == <>AllDone
=============================================================================
