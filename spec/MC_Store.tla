------------------------------ MODULE MC_Store ------------------------------
(***************************************************************************)
(* Product of the model of the code (MemcStore) and the contract           *)
(* (MemcContract): every command the alphabet allows is executed by the     *)
(* model in every reachable state, the event it would produce is judged by  *)
(* the contract, and the invariant says no rule fails - i.e. the model      *)
(* refines the contract, exhaustively within the constants.  The same       *)
(* module emits its behaviours as replayable programs (GEN).                *)
(***************************************************************************)
EXTENDS MemcStore, Json

CONSTANTS Keys, Vals, FlagVals, Ttls, CasVals, Deltas, Inits, Quiets, Ops,
          TickTo,        \* clock values a tick may jump to
          Policy, MemLimit, ItemLimit,
          MaxSteps,      \* bound on the number of commands + ticks
          Emit,          \* TRUE: print every maximal behaviour as a program
          Randomised     \* TRUE (simulation only): each step draws ONE command at random instead of
                         \* enumerating the alphabet, so that long behaviours are cheap to generate

VARIABLES m, cs, bad, steps, prog
vars == <<m, cs, bad, steps, prog>>

OpCode(op, q, gk) ==
    CASE op = "get" -> (IF q THEN (IF gk THEN 13 ELSE 9) ELSE (IF gk THEN 12 ELSE 0))
      [] op = "set" -> IF q THEN 17 ELSE 1      [] op = "add" -> IF q THEN 18 ELSE 2
      [] op = "replace" -> IF q THEN 19 ELSE 3  [] op = "delete" -> IF q THEN 20 ELSE 4
      [] op = "incr" -> IF q THEN 21 ELSE 5     [] op = "decr" -> IF q THEN 22 ELSE 6
      [] op = "quit" -> IF q THEN 23 ELSE 7     [] op = "flush" -> IF q THEN 24 ELSE 8
      [] op = "append" -> IF q THEN 25 ELSE 14  [] op = "prepend" -> IF q THEN 26 ELSE 15
      [] op = "noop" -> 10 [] op = "version" -> 11 [] op = "stat" -> 16
      [] OTHER -> 28

BodyLen(op, k, v, ttl) ==
    CASE op \in StoreOps -> 8 + (Len(k) + Len(v)) \div 2
      [] op \in ConcatOps -> (Len(k) + Len(v)) \div 2
      [] op \in DeltaOps -> 20 + Len(k) \div 2
      [] op \in {"get", "delete"} -> Len(k) \div 2
      [] op = "flush" -> IF ttl > 0 THEN 4 ELSE 0
      [] OTHER -> 0

Mk(op, q, gk, k, v, f, ttl, cas, d, i) ==
    [op |-> op, q |-> q, gk |-> gk, opc |-> OpCode(op, q, gk), k |-> k, v |-> v, f |-> f,
     ttl |-> ttl, ttls |-> NatToStr(ttl), cas |-> cas, opq |-> "7", d |-> d, i |-> i,
     bl |-> BodyLen(op, k, v, ttl)]

Cmds ==
    LET Q == Quiets IN
    (IF "get" \in Ops THEN {Mk("get", q, gk, k, "", "0", 0, "0", "0", "0") : q \in Q, gk \in {FALSE, TRUE}, k \in Keys} ELSE {})
    \cup UNION {{Mk(op, q, FALSE, k, v, f, t, c, "0", "0") : q \in Q, k \in Keys, v \in Vals, f \in FlagVals, t \in Ttls, c \in CasVals}
                : op \in Ops \cap StoreOps}
    \cup UNION {{Mk(op, q, FALSE, k, v, "0", 0, c, "0", "0") : q \in Q, k \in Keys, v \in Vals \ {""}, c \in CasVals}
                : op \in Ops \cap ConcatOps}
    \cup UNION {{Mk(op, q, FALSE, k, "", "0", t, c, d, i) : q \in Q, k \in Keys, t \in Ttls, c \in CasVals, d \in Deltas, i \in Inits}
                : op \in Ops \cap DeltaOps}
    \cup (IF "incr" \in Ops THEN {[Mk("incr", q, FALSE, k, "", "0", 1073741824, "0", d, i) EXCEPT !.ttls = U32Max]
                                   : q \in Q, k \in Keys, d \in Deltas, i \in Inits} ELSE {})
    \cup (IF "delete" \in Ops THEN {Mk("delete", q, FALSE, k, "", "0", 0, c, "0", "0") : q \in Q, k \in Keys, c \in CasVals} ELSE {})
    \cup (IF "flush" \in Ops THEN {Mk("flush", q, FALSE, "", "", "0", t, "0", "0", "0") : q \in Q, t \in Ttls} ELSE {})
    \cup {Mk(op, FALSE, FALSE, "", "", "0", 0, "0", "0", "0") : op \in Ops \cap {"noop", "version", "stat"}}

Init == /\ m = InitModel(Keys, Policy, MemLimit, ItemLimit)
        /\ cs = {InitState(Keys, Policy, MemLimit, ItemLimit, TRUE)}
        /\ bad = {} /\ steps = 0 /\ prog = <<>>

DoCmd == /\ steps < MaxSteps /\ bad = {}
         /\ \E c \in (IF Randomised THEN {RandomElement(Cmds)} ELSE Cmds) : \E o \in ExecSet(m, c) :
               LET e == EventOf(c, o)
                   j == JudgeAll(cs, e)
               IN  /\ m' = o.m
                   /\ cs' = j.sts
                   /\ bad' = j.tags \cup j.notes
                   /\ steps' = steps + 1
                   /\ prog' = IF Emit THEN Append(prog, [t |-> "cmd", op |-> c.op, q |-> c.q, gk |-> c.gk, k |-> c.k,
                                                        v |-> c.v, f |-> c.f, ttl |-> c.ttls,
                                                        cas |-> (IF c.cas = MaxU THEN "max" ELSE c.cas),
                                                        opq |-> NatToStr(steps + 1),
                                                        d |-> (IF c.d = MaxU THEN "max" ELSE c.d),
                                                        i |-> (IF c.i = MaxU THEN "max" ELSE c.i)])
                              ELSE prog

DoTick == /\ steps < MaxSteps /\ bad = {}
          /\ \E t \in TickTo : /\ t > m.now
                               /\ m' = [m EXCEPT !.now = t]
                               /\ cs' = TickAll(cs, t)
                               /\ prog' = IF Emit THEN Append(prog, [t |-> "tick", to |-> t]) ELSE prog
          /\ steps' = steps + 1 /\ UNCHANGED bad

Next == DoCmd \/ DoTick
Spec == Init /\ [][Next]_vars

(* the CAS counter must stay inside the small universe (2^64 stores are not reachable) *)
Bounded == Less(m.ctr, MaxU)

Refines == bad = {}                                   \* the model refines the contract
Accounting == m.usage = StoredBytes(m)                \* C15: accounting is a function of content
EmptyZero == (Present(m) = {}) => m.usage = 0
Bound == m.policy = "random" =>
            \A c \in cs : m.usage <= m.L + c.lastSize  \* C14 at rest
View == <<m, cs, bad, steps>>

(* C19: switching a command between its loud and quiet opcode never changes the effect *)
Flip(c) == [c EXCEPT !.q = ~c.q, !.opc = OpCode(c.op, ~c.q, c.gk)]
QuietSameEffect == \A c \in Cmds : c.op \in {"noop", "version", "stat"} \/
                      {o.m : o \in ExecSet(m, c)} = {o.m : o \in ExecSet(m, Flip(c))}

EmitProg == (Emit /\ steps = MaxSteps) =>
            PrintT("PROG " \o ToJson([name |-> "tlc", cfg |-> [policy |-> Policy, L |-> NatToStr(MemLimit), limit |-> ItemLimit],
                                      keys |-> SetToSeq(Keys), steps |-> prog]))
=============================================================================
