----------------------------- MODULE WireTcpTrace -----------------------------
(***************************************************************************)
(* Trace validation of one connection at the SOCKET (C09 C11 C12 C13).     *)
(* A stream of complete frames (plus a sentinel noop the driver appends)   *)
(* is sent under many segmentations; every universe records the responses  *)
(* in arrival order, how the reading ended and the final store content.    *)
(* The contract walks the frames in order against the responses:           *)
(*   canonical loud   exactly one response carrying its opcode and opaque  *)
(*   canonical quiet  at most one (an error; or a hit for quiet gets)      *)
(*   oversize         exactly one 'too large' (0x03); the body is skipped, *)
(*                    the frames behind it are served                      *)
(*   unimplemented    one response if loud                                 *)
(*   quit / quitq     (one response /) no response, then end of stream:    *)
(*                    nothing behind it is answered or executed            *)
(*   odd, invalid     either the connection is closed at that frame or an  *)
(*                    error is answered and the stream stays aligned       *)
(* and requires the outcome to be the same in every universe.              *)
(***************************************************************************)
EXTENDS WireFrames, TLC, Json, IOUtils, U64

Rec == ndJsonDeserialize(IOEnv.TRACE)
N   == Len(Rec)
Sentinel == "4276993775"
Slack == 131072
StatusTable == {0, 1, 2, 3, 4, 5, 6, 32, 33, 129, 130, 131, 132, 133, 134}

VARIABLES l, sm, viol, cov
vars == <<l, sm, viol, cov>>
NoStream == [id |-> 0, limit |-> 0, frames |-> <<>>, first |-> <<>>, dead |-> FALSE, cut |-> 0, expect |-> <<>>, strict |-> FALSE]
Init == l = 1 /\ sm = NoStream /\ viol = <<>> /\ cov = <<>>

Count(c, rule) == IF \E i \in 1..Len(c) : c[i][1] = rule
                  THEN [i \in 1..Len(c) |-> IF c[i][1] = rule THEN <<rule, c[i][2] + 1>> ELSE c[i]]
                  ELSE Append(c, <<rule, 1>>)

ProbeVal(f) == "76" \o TextHex(f.opq)
\* (a probe store: set of a two-byte key "p<d>" with the 8 extras and the value "v<opaque>")
IsProbe(f, limit) == /\ f.op = 1 /\ Class(f, limit) = "canonical" /\ "key" \in DOMAIN f /\ Len(f.key) = 4 /\ SubSeq(f.key, 1, 2) = "70"
                     /\ f.kl = 2 /\ f.el = 8 /\ f.bl = 10 + (Len(ProbeVal(f)) \div 2) /\ f.sent = f.bl
(* slow-reader universes log long values as a digest plus their length *)
VLen(r) == IF "vl" \in DOMAIN r THEN r.vl ELSE Len(r.v) \div 2
RespOK(r) ==
    /\ r.short = 0 /\ r.magic = 129 /\ r.dt = 0 /\ r.st \in StatusTable /\ r.bl = r.al
    /\ Len(r.x) = 2 * r.el /\ Len(r.key) = 2 * r.kl
    /\ r.bl = r.el + r.kl + VLen(r)
Answers(r, f) == r.opq = f.opq /\ r.op = f.op

Res(tags, rule) == [tags |-> tags, rule |-> rule, lim |-> 1000000]
(* a walk that ended because the connection ended: only the first `lim` frames may have been executed *)
ResAt(rule, lim) == [tags |-> {}, rule |-> rule, lim |-> lim]

RECURSIVE StartOf(_, _)
StartOf(fr, i) == IF i = 1 THEN 0 ELSE StartOf(fr, i - 1) + HeaderLen + fr[i - 1].sent

(* walk frame fi against response ri; `how` says how the reading ended; the client sent only *)
(* the first `cut` bytes (the whole stream plus a sentinel noop when cut = total length)      *)
LastProbe(i, lim) == IsProbe(sm.frames[i], sm.limit) /\ ~(\E j \in (i + 1)..lim : (IsProbe(sm.frames[j], sm.limit) /\ sm.frames[j].key = sm.frames[i].key))
InStore(i, e) == \E x \in 1..Len(e.store) : (e.store[x].k = sm.frames[i].key /\ e.store[x].v = ProbeVal(sm.frames[i]))
StoreUndone(lim, e) == \E i \in 1..lim : (LastProbe(i, lim) /\ ~InStore(i, e))
(* what goes wrong after an oversized frame also breaks C13 ("the following pipelined requests are served normally") *)
OverBefore(fr, fi) == IF \E j \in 1..(fi - 1) : j <= Len(fr) /\ Class(fr[j], sm.limit) = "oversize" THEN {"C13"} ELSE {}
RECURSIVE Walk(_, _, _, _, _, _, _)
(* `at` is the stream offset of frame fi (carried along: no recomputation per frame) *)
Walk(fr, rs, fi, ri, how, cut, at) ==
    LET total == at
        closedNow == ri > Len(rs) /\ how \in {"eof", "reset"}
    IN
    IF fi > Len(fr) THEN
        IF cut < total THEN (IF closedNow THEN ResAt("cut.closed", fi - 1) ELSE Res({"C18", "C12"}, "cut.extra.response"))
        \* all frames served: the sentinel noop must be answered, and nothing else
        ELSE IF ri = Len(rs) /\ how = "done" /\ rs[ri].opq = Sentinel /\ rs[ri].st = 0 THEN Res({}, "served")
        ELSE IF ri <= Len(rs) /\ rs[ri].opq # Sentinel THEN Res({"C12", "C09"} \cup OverBefore(fr, fi), "extra.response")
        ELSE Res({"C12", "C09", "C13"}, "sentinel.unanswered")
    ELSE
    LET f == fr[fi]
        cls == Class(f, sm.limit)
        oc  == OpClass(f.op)
        have == ri <= Len(rs) /\ Answers(rs[ri], f)
        closedHere == closedNow
        hdrIn == at + HeaderLen <= cut
        nxt == at + HeaderLen + f.sent
        allIn == nxt <= cut
    IN
    IF ~allIn /\ ~(hdrIn /\ cls = "oversize") THEN
        \* the client stopped inside this frame: it is not executed, nothing more is answered (C18)
        IF closedHere THEN ResAt("cut.closed", fi - 1)
        ELSE Res({"C18", "C09"}, "incomplete.frame.answered")
    ELSE IF cls = "oversize" THEN
        IF have /\ rs[ri].st = 3 THEN Walk(fr, rs, fi + 1, ri + 1, how, cut, nxt)
        \* (an oversized body that is not refused has been buffered: the connection's memory bound of C10 is gone too)
        ELSE Res({"C13", "C10"}, "oversize.bad")
    ELSE IF have /\ rs[ri].st = 3 THEN Res({"C13"}, "toolarge.within.limit")
    ELSE IF cls = "canonical" /\ oc = "quit" THEN
        IF f.op = 7 THEN (IF have /\ rs[ri].st = 0 /\ ri = Len(rs) /\ how \in {"eof", "reset"} THEN ResAt("quit", fi) ELSE Res({"C12"}, "quit.bad"))
        ELSE (IF closedHere THEN ResAt("quitq", fi) ELSE Res({"C12"}, "quitq.bad"))
    ELSE IF cls = "canonical" THEN
        IF ~IsQuiet(f.op) THEN (IF have THEN Walk(fr, rs, fi + 1, ri + 1, how, cut, nxt) ELSE Res({"C12", "C09", "C18"} \cup OverBefore(fr, fi), "loud.unanswered"))
        ELSE IF have THEN
            (IF rs[ri].st # 0 \/ oc = "get" THEN Walk(fr, rs, fi + 1, ri + 1, how, cut, nxt) ELSE Res({"C12", "C19"}, "quiet.success.answered"))
        ELSE Walk(fr, rs, fi + 1, ri, how, cut, nxt)
    ELSE IF cls = "unimpl" THEN
        IF have THEN Walk(fr, rs, fi + 1, ri + 1, how, cut, nxt)
        ELSE IF IsQuiet(f.op) THEN Walk(fr, rs, fi + 1, ri, how, cut, nxt)
        ELSE Res({"C12"} \cup OverBefore(fr, fi), "unimpl.unanswered")
    ELSE \* odd or invalid
        IF closedHere THEN ResAt("closed." \o cls, fi - 1)
        ELSE IF have /\ rs[ri].st # 0 THEN Walk(fr, rs, fi + 1, ri + 1, how, cut, nxt)
        ELSE IF cls = "invalid" THEN Res({"C10", "C09", "C18"}, "invalid.not.refused")
        ELSE Res({"C09", "C18"}, "odd.not.refused")

Judge(e) ==
    IF "panics" \in DOMAIN e /\ e.panics > 0 THEN Res({"C10"}, "server.task.panicked")
    \* (under back-pressure - the client reads late - a response cut short is also a request without its one response)
    ELSE IF \E i \in 1..Len(e.r) : ~RespOK(e.r[i]) THEN Res({"C11"} \cup (IF "slow" \in DOMAIN e THEN {"C12"} ELSE {}), "malformed.response")
    ELSE IF e.how = "timeout" THEN Res({"C12", "C09", "C10"}, "no.answer.in.time")
    ELSE IF e.maxcap > sm.limit + Slack THEN Res({"C10"}, "buffer.bloat")
    ELSE LET w == Walk(sm.frames, e.r, 1, 1, e.how, sm.cut, 0) IN
         \* nothing received after the point at which the connection ended is executed: the driver's probe
         \* stores write the value "v<opaque>", so a store entry names the frame that wrote it
         IF w.tags = {} /\ \E i \in (w.lim + 1)..Len(sm.frames) : \E j \in 1..Len(e.store) : e.store[j].v = ProbeVal(sm.frames[i])
         THEN Res(IF w.rule \in {"quit", "quitq"} THEN {"C12"} ELSE {"C18", "C09", "C10"}, "executed.after." \o w.rule)
         \* (streams whose only mutations are probe stores and one corrupted request:) what was completely sent before the
         \* point at which the connection ended is executed - the last probe store of a key among those frames is in the
         \* store, so the invalid request behind it (a delete / overwrite / append of that item) was not executed
         ELSE IF w.tags = {} /\ sm.strict /\ StoreUndone(IF w.lim > Len(sm.frames) THEN Len(sm.frames) ELSE w.lim, e)
         THEN Res({"C18", "C09", "C10"}, "completed.store.undone")
         \* and the body of an oversized request is never executed (its filler is made of set frames for key "inj")
         ELSE IF w.tags = {} /\ \E j \in 1..Len(e.store) : e.store[j].k = "696e6a" THEN Res({"C13", "C10"}, "oversized.body.executed")
         ELSE w

(* a server closing a socket with unread input makes the kernel send RST instead of FIN *)
Norm(how) == IF how = "reset" THEN "eof" ELSE how
(* conformance to the Wire model: it predicts which frames are answered, in which order *)
NoSentinel(rs) == SelectSeq(rs, LAMBDA r : r.opq # Sentinel)
ModelAgrees(x, e) == LET rs == NoSentinel(e.r) IN
                     /\ Len(rs) = Len(x.resp)
                     /\ \A i \in 1..Len(rs) : rs[i].opq = x.resp[i][1] /\ ((x.resp[i][2] = "toolarge") <=> (rs[i].st = 3))
Summary(e) == [resp |-> e.resp, how |-> Norm(e.how), store |-> e.store]

Step ==
    /\ l <= N
    /\ l' = l + 1
    /\ LET e == Rec[l] IN
       IF e.e = "stream" THEN
            /\ sm' = [id |-> e.id, limit |-> e.limit, frames |-> e.frames, first |-> <<>>, dead |-> FALSE,
                      cut |-> IF "expect" \in DOMAIN e THEN e.expect.cut ELSE e.len,
                      strict |-> ("strict" \in DOMAIN e /\ e.strict),
                      expect |-> IF "expect" \in DOMAIN e THEN <<e.expect>> ELSE <<>>]
            /\ UNCHANGED <<viol, cov>>
       ELSE IF sm.dead THEN UNCHANGED <<sm, viol, cov>>
       ELSE LET j == Judge(e) IN
            IF j.tags # {} THEN
                /\ viol' = Append(viol, [line |-> l, stream |-> sm.id, u |-> e.u, tags |-> j.tags, rule |-> j.rule])
                /\ sm' = [sm EXCEPT !.dead = TRUE] /\ UNCHANGED cov
            ELSE IF sm.expect # <<>> /\ ~ModelAgrees(sm.expect[1], e) THEN
                /\ viol' = Append(viol, [line |-> l, stream |-> sm.id, u |-> e.u, tags |-> {"DRIFT"}, rule |-> "model.mismatch"])
                /\ sm' = [sm EXCEPT !.dead = TRUE] /\ UNCHANGED cov
            ELSE IF sm.first # <<>> /\ sm.first[1] # Summary(e) THEN
                /\ viol' = Append(viol, [line |-> l, stream |-> sm.id, u |-> e.u, tags |-> {"C09"} \cup (IF "slow" \in DOMAIN e THEN {"C11", "C12"} ELSE {}) \cup
                                             (IF \E i \in 1..Len(sm.frames) : Class(sm.frames[i], sm.limit) = "oversize" THEN {"C13"} ELSE {}),
                                         rule |-> "segmentation.dependent"])
                /\ sm' = [sm EXCEPT !.dead = TRUE] /\ UNCHANGED cov
            ELSE /\ sm' = IF sm.first = <<>> THEN [sm EXCEPT !.first = <<Summary(e)>>] ELSE sm
                 /\ cov' = Count(Count(cov, j.rule), "universe") /\ UNCHANGED viol

Next == Step
Spec == Init /\ [][Next]_vars
Report == l = N + 1 => PrintT("RESULT " \o ToJson([lines |-> N, violations |-> viol, coverage |-> cov, notes |-> <<>>]))
Accepted == TLCGet("stats").diameter - 1 = N
=============================================================================
