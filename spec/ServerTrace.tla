----------------------------- MODULE ServerTrace -----------------------------
(***************************************************************************)
(* Trace validation of the connection limit (C17) against Server.tla.      *)
(* Events: the driver's view of each connection (open, probe answered or   *)
(* silent, how it was ended, starved = a freed slot was not handed on      *)
(* within 5 s) interleaved - by one global sequence counter - with the     *)
(* hook events of the semaphore (acq = acquire().forget() done for that    *)
(* peer, rel = Drop for Client added the permit back; both carry           *)
(* available_permits()).  Every hook event is a (composition of) Server    *)
(* action(s); after each one the Server invariants are evaluated on the    *)
(* state the trace has driven the specification into.                      *)
(***************************************************************************)
EXTENDS Server, Json, IOUtils

Rec == ndJsonDeserialize(IOEnv.TRACE)
N   == Len(Rec)
TracePorts == {Rec[i].port : i \in {j \in 1..N : Rec[j].e = "open"}}

VARIABLES l, lim, ids, viol, cov, dead, lastAvail, hk
tvars == <<l, lim, ids, viol, cov, dead, lastAvail, hk>>
allvars == <<vars, tvars>>

(* ids: sequence of [id, port, answered, ended] in order of opening *)
TInit == /\ Init /\ l = 1 /\ lim = 0 /\ ids = <<>> /\ viol = <<>> /\ cov = <<>> /\ dead = FALSE /\ lastAvail = 0 /\ hk = TRUE

Count(c, rule) == IF \E i \in 1..Len(c) : c[i][1] = rule
                  THEN [i \in 1..Len(c) |-> IF c[i][1] = rule THEN <<rule, c[i][2] + 1>> ELSE c[i]]
                  ELSE Append(c, <<rule, 1>>)
Idx(id) == CHOOSE i \in 1..Len(ids) : ids[i].id = id
Known(id) == \E i \in 1..Len(ids) : ids[i].id = id
PortOf(id) == ids[Idx(id)].port
(* connections whose probe was answered, that the driver has not ended and the server has not let go *)
Live == {i \in 1..Len(ids) : ids[i].answered /\ ~ids[i].ended /\ cstate[ids[i].port] # "released"}

Reset == /\ cstate' = [c \in Conns |-> "idle"] /\ gone' = [c \in Conns |-> FALSE] /\ way' = [c \in Conns |-> "none"]
         /\ holder' = [x \in Listeners |-> "none"] /\ sem' = [c \in Conns |-> "none"] /\ released' = [c \in Conns |-> 0]

Flag(tags, rule, e) == /\ viol' = Append(viol, [line |-> l, tags |-> tags, rule |-> rule, seq |-> e.seq])
                       /\ dead' = TRUE /\ UNCHANGED <<vars, lim, ids, cov, lastAvail>>
Fine(rule) == cov' = Count(cov, rule) /\ UNCHANGED <<viol, dead>>

(* hk = FALSE: a server in another process, no semaphore events: only the driver's view is judged *)
Step ==
  /\ l <= N /\ l' = l + 1
  /\ hk' = IF Rec[l].e = "scenario" /\ "hooks" \in DOMAIN Rec[l] THEN Rec[l].hooks ELSE hk
  /\ LET e == Rec[l] IN
     IF e.e = "scenario" THEN
        /\ Reset /\ permits' = [s \in Sems |-> e.limit] /\ lim' = e.limit /\ ids' = <<>> /\ dead' = FALSE
        /\ lastAvail' = e.limit /\ UNCHANGED <<viol, cov>>
     ELSE IF dead THEN UNCHANGED <<vars, lim, ids, viol, cov, dead, lastAvail>>
     ELSE IF e.e = "open" THEN
        /\ Connect(e.port) /\ ids' = Append(ids, [id |-> e.id, port |-> e.port, answered |-> FALSE, ended |-> FALSE])
        /\ Fine("open") /\ UNCHANGED <<lim, lastAvail>>
     ELSE IF e.e = "acq" THEN
        \* Accept ; Acquire of Server.tla for this peer
        IF e.port \notin Conns \/ cstate[e.port] # "queued" THEN Flag({"C17"}, "acquire.unknown.or.twice", e)
        ELSE IF permits["s"] = 0 THEN Flag({"C17"}, "acquired.beyond.limit", e)
        ELSE IF e.avail > permits["s"] - 1 THEN Flag({"C17"}, "permits.inflated", e)
        ELSE /\ cstate' = [cstate EXCEPT ![e.port] = "serving"]
             /\ permits' = [permits EXCEPT !["s"] = @ - 1]
             /\ sem' = [sem EXCEPT ![e.port] = "s"]
             /\ lastAvail' = e.avail
             /\ Fine("acquire") /\ UNCHANGED <<gone, way, holder, released, lim, ids>>
     ELSE IF e.e = "rel" THEN
        \* End ; Release of Server.tla
        IF e.port \notin Conns \/ cstate[e.port] # "serving" THEN Flag({"C17"}, "released.twice.or.never.acquired", e)
        ELSE IF e.avail > permits["s"] + 1 THEN Flag({"C17"}, "permits.inflated", e)
        ELSE /\ cstate' = [cstate EXCEPT ![e.port] = "released"]
             /\ permits' = [permits EXCEPT !["s"] = @ + 1]
             /\ released' = [released EXCEPT ![e.port] = @ + 1]
             /\ lastAvail' = e.avail
             /\ Fine("release") /\ UNCHANGED <<gone, way, holder, sem, lim, ids>>
     ELSE IF e.e = "answered" THEN
        IF ~Known(e.id) THEN Flag({"C17"}, "answer.from.nowhere", e)
        ELSE LET i == Idx(e.id)  ids2 == [ids EXCEPT ![i].answered = TRUE] IN
             IF hk /\ cstate[ids[i].port] \notin {"serving", "released"} THEN Flag({"C17"}, "served.without.permit", e)
             ELSE IF Cardinality({j \in 1..Len(ids2) : ids2[j].answered /\ ~ids2[j].ended /\ cstate[ids2[j].port] # "released"}) > lim
                  THEN Flag({"C17"}, "more.than.limit.served", e)
             ELSE ids' = ids2 /\ Fine("answered") /\ UNCHANGED <<vars, lim, lastAvail>>
     ELSE IF e.e = "silent" THEN
        \* a fresh connection on a server with free slots must be served promptly
        IF e.id >= 1000 /\ e.id < 1000 + lim /\ Cardinality(Live) < lim /\ (~hk \/ permits["s"] > 0)
        THEN Flag({"C17"}, "free.slot.not.used", e)
        ELSE Fine("waiting") /\ UNCHANGED <<vars, lim, ids, lastAvail>>
     ELSE IF e.e = "starved" THEN Flag({"C17"}, "freed.slot.not.handed.on", e)
     ELSE IF e.e = "end" THEN
        LET i == Idx(e.id) IN
        IF ~e.ok /\ e.served /\ cstate[ids[i].port] # "released"
        THEN Flag(IF e.way \in {"quit", "quitq"} THEN {"C12", "C17"} ELSE IF e.way = "oversize" THEN {"C13", "C17"} ELSE {"C17"},
                  "end." \o e.way \o ".misbehaved", e)
        ELSE ids' = [ids EXCEPT ![i].ended = TRUE] /\ Fine("end." \o e.way) /\ UNCHANGED <<vars, lim, lastAvail>>
     ELSE IF e.e = "finish" THEN
        \* every slot has come back, exactly once
        IF hk /\ \E c \in Conns : cstate[c] = "serving" THEN Flag({"C17"}, "permit.never.returned", e)
        ELSE IF hk /\ (permits["s"] # lim \/ lastAvail # lim) THEN Flag({"C17"}, "permits.not.restored", e)
        ELSE IF \E i \in 1..Len(ids) : ids[i].id >= 1000 /\ ~ids[i].answered THEN Flag({"C17"}, "fresh.connection.unserved", e)
        ELSE Fine("finish") /\ UNCHANGED <<vars, lim, ids, lastAvail>>
     ELSE Fine("other") /\ UNCHANGED <<vars, lim, ids, lastAvail>>

TNext == Step
TSpec == TInit /\ [][TNext]_allvars
(* the Server invariants hold on every state the trace drives the specification into *)
(* (LimitEnforced with the scenario's limit, which varies inside one trace file) *)
TraceInv == dead \/ ~hk \/ (Cardinality(Serving) <= lim /\ ReleasedOnce /\ permits["s"] + Cardinality({c \in Conns : cstate[c] = "serving"}) = lim)
Report == l = N + 1 => PrintT("RESULT " \o ToJson([lines |-> N, violations |-> viol, coverage |-> cov, notes |-> <<>>]))
Accepted == TLCGet("stats").diameter - 1 = N
=============================================================================
