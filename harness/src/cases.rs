//! TLC-generated cases of the Wire model (abstract frames + cut + server read sizes) made concrete.
use crate::proto::Frame;
use crate::wire::Stream;
use serde_json::Value;

pub struct Case {
    pub stream: Stream,
    /// byte sizes of the chunks to deliver (the model's server reads), the rest follows as one chunk
    pub chunks: Vec<usize>,
    /// bytes the client sends before it closes
    pub cut: usize,
    pub total: usize,
    pub has_over: bool,
    pub expect_exec: Vec<String>,
    pub expect_resp: Vec<(String, String)>,
}

const HDR_UNIT: usize = 12;

pub fn concretise(v: &Value, limit_bytes: u32, idx: usize) -> Case {
    let h = v["h"].as_u64().unwrap_or(2) as usize;
    let limit_units = v["limit"].as_u64().unwrap_or(2) as usize;
    let unit = limit_bytes as usize / limit_units;
    let mut frames = Vec::new();
    let mut has_over = false;
    // abstract offset -> byte offset
    let mut amap: Vec<(usize, usize)> = vec![(0, 0)]; // (abstract, byte) at unit boundaries
    let mut aoff = 0usize;
    let mut boff = 0usize;
    let empty = Vec::new();
    for (i, f) in v["frames"].as_array().unwrap_or(&empty).iter().enumerate() {
        let kind = f["kind"].as_str().unwrap_or("canon");
        let q = f["q"].as_bool().unwrap_or(false);
        let ans = f["ans"].as_bool().unwrap_or(true);
        let bl = f["bl"].as_u64().unwrap_or(0) as usize;
        let body = bl * unit;
        let opq = (idx as u32) * 100 + i as u32 + 1;
        let key = format!("k{:03}", i).into_bytes(); // 4 bytes
        let fill = |n: usize| -> Vec<u8> { (0..n).map(|j| b'a' + (j % 26) as u8).collect() };
        let fr = match kind {
            "canon" => {
                if bl == 0 {
                    Frame::consistent(0x0a, &[], &[], &[], opq, 0)
                } else if !q {
                    Frame::consistent(0x01, &[0, 0, 0, 5, 0, 0, 0, 0], &key, &fill(body - 12), opq, 0)
                } else if !ans {
                    Frame::consistent(0x11, &[0, 0, 0, 5, 0, 0, 0, 0], &key, &fill(body - 12), opq, 0)
                } else {
                    // a quiet delete of a key that is not there: the error is answered
                    let k: Vec<u8> = (0..body).map(|j| b'z' - (j % 5) as u8).collect();
                    Frame::consistent(0x14, &[], &k, &[], opq, 0)
                }
            }
            "quit" => Frame::consistent(if q { 0x17 } else { 0x07 }, &[], &[], &[], opq, 0),
            "unimpl" => {
                let k = fill(body.saturating_sub(4));
                Frame::consistent(if q { 0x1e } else { 0x1c }, &[0, 0, 0, 9], &k, &[], opq, 0)
            }
            "odd" => Frame::consistent(0x00, &[], &key, &fill(body.saturating_sub(4)), opq, 0),
            "badbody" => Frame::consistent(0x01, &vec![0u8; 21], &key, &fill(body.saturating_sub(25)), opq, 0),
            "badhdr" => {
                let mut f = Frame::consistent(0x01, &[0, 0, 0, 0, 0, 0, 0, 0], &key, &fill(body.saturating_sub(12)), opq, 0);
                if body < 12 {
                    f = Frame::consistent(0x0a, &[], &[], &[], opq, 0);
                }
                f.magic = 0x81;
                f
            }
            _ => {
                has_over = true;
                let mut rng = rand::SeedableRng::seed_from_u64(opq as u64);
                let mut f = crate::tcpgen::oversize_frame(&mut rng, opq, limit_bytes, body as u32);
                if q {
                    f.opcode = 0x11;
                    f.extras_length = 8;
                    f.key_length = 3;
                }
                f
            }
        };
        debug_assert_eq!(fr.body.len(), body);
        frames.push(fr);
        for u in 1..=h {
            amap.push((aoff + u, boff + u * HDR_UNIT));
        }
        aoff += h;
        boff += h * HDR_UNIT;
        for u in 1..=bl {
            amap.push((aoff + u, boff + u * unit));
        }
        aoff += bl;
        boff += body;
    }
    let to_bytes = |a: usize| -> usize { amap.iter().find(|(x, _)| *x == a).map(|(_, b)| *b).unwrap_or(boff) };
    let mut chunks = Vec::new();
    let mut acc = 0usize;
    for r in v["reads"].as_array().unwrap_or(&empty) {
        let n = r.as_u64().unwrap_or(0) as usize;
        let b0 = to_bytes(acc);
        let b1 = to_bytes(acc + n);
        if b1 > b0 {
            chunks.push(b1 - b0);
        }
        acc += n;
    }
    let cut = to_bytes(v["cut"].as_u64().unwrap_or(aoff as u64) as usize);
    let opq_of = |i: u64| ((idx as u32) * 100 + i as u32).to_string();
    let expect_exec = v["exec"].as_array().unwrap_or(&empty).iter().map(|x| opq_of(x.as_u64().unwrap_or(0))).collect();
    let expect_resp = v["resp"].as_array().unwrap_or(&empty).iter()
        .map(|x| (opq_of(x[0].as_u64().unwrap_or(0)), x[1].as_str().unwrap_or("").to_string())).collect();
    Case {
        stream: Stream { name: format!("case-{}", idx), limit: limit_bytes, frames, tail: vec![] },
        chunks, cut, total: boff, has_over, expect_exec, expect_resp,
    }
}
