#!/usr/bin/env python3
"""mkprompts.py <root e.g. /tmp/mut4>: a scratch worktree of /repo and a prompt per property for an independent
sub-agent that seeds a change breaking the property (it gets the property text only - nothing from /verif)."""
import json, os, subprocess, sys, glob
root = sys.argv[1]
os.makedirs(root, exist_ok=True)
used = {}
for d in sorted(glob.glob("/verif/seeded/*/meta.json")):
    m = json.load(open(d))
    name = m["id"]
    slogan = name.split("-", 1)[1].replace("-", " ")
    used.setdefault(m["breaks_property"], []).append(slogan)
T = """You are helping to evaluate a verification effort by seeding a realistic bug. You have your own scratch git worktree of the project "memc-rs" (memcrsd: a small memcached binary-protocol-compatible in-memory key-value server in Rust, tokio + DashMap) at:

    {W}

Work ONLY inside that directory (never touch /repo or /verif, never read anything under /verif). The sandbox has no network: use `cargo ... --offline`, and put build output inside your worktree (`--target-dir {W}/target`).

The property you must BREAK:

Property {ID}: {TITLE}

Statement: {STATEMENT}

Quantification: {QUANT}

Code the property is anchored in: {FILES}


Task: make ONE small, realistic change to the memc-rs source (the kind of slip a developer could make in a refactoring, an "optimisation" or a fix of something else; 1-15 changed lines, possibly two cooperating sites that each look fine alone) such that:
  1. the crate still compiles, both normally and with the instrumentation flag:  RUSTFLAGS="--cfg memcrs_verif" cargo build --offline -p memcrs --target-dir {W}/target-v   (the code contains `#[cfg(memcrs_verif)]` hook lines; leave them working);
  2. the existing test-suite still passes unchanged:  cd {W} && cargo test --workspace --offline --target-dir {W}/target   (92 tests);
  3. the property above is violated - but NOT in a way ordinary use would expose at once. The violation should need something specific to manifest: a particular interleaving, a fault at a particular point, a multi-step sequence of operations, an unusual input or boundary value, a particular configuration, or two cooperating sites.
  4. you provide a DEMONSTRATION: a small Rust test or program (it may live in the worktree, e.g. as a new file under memcrs/tests/ or an extra #[test], or a script driving the built `memcrsd` binary over a socket) that FAILS with your change applied and PASSES on the unmodified code. Run it both ways and report the outputs. The demonstration is yours only - it is not part of the seeded change.

Deliverables, all directly inside {W}/mutant/ (no sub-directories):
  - patch.diff : `git diff` of ONLY the seeded source change (not the demonstration), applicable with `git apply` at the worktree's HEAD;
  - the demonstration file(s) and a short README.md: which property clause is broken, what is needed for it to manifest, exact commands you ran and their results with and without the change.
Before finishing, make sure of a `git stash`-free state: leave the worktree with the change applied and the demo present; that is fine.

Read the code first (memcrs/src/...: memory_store/store.rs, memcache/store.rs, memcache/random_policy.rs, protocol/binary_codec.rs, protocol/binary_connection.rs, memcache_server/{{handler,client_handler,memc_tcp,runtime_builder}}.rs, server/timer.rs, memcache/cli/parser.rs). Be concrete and verify everything by running it. Report back a brief summary (what you changed, how it manifests, that conditions 1, 2 and 4 were checked).

Earlier attempts for this property already used these ideas (named by slogan): {USED}. Do something clearly DIFFERENT from all of them: another code site and another clause or mechanism of the property. Prefer subtle semantic slips over crashes: an off-by-one in a comparison, a boundary (<= vs <), a field copied from the wrong record, a wrong default, an error mapped to the wrong status, a check in the wrong order, state updated on the error path, a lock released too early, an arithmetic edge, a configuration value converted wrongly.
"""
for line in open("/verif/properties.jsonl"):
    p = json.loads(line)
    pid = p["id"]
    W = os.path.join(root, pid)
    if not os.path.isdir(W):
        subprocess.run(["git", "-C", "/repo", "worktree", "add", "--detach", "-q", W, "HEAD"], check=True)
    txt = T.format(W=W, ID=pid, TITLE=p["title"], STATEMENT=p["statement"], QUANT=p["quantifier"]["text"],
                   FILES=", ".join(p["anchors"]["files"]), USED="; ".join('"%s"' % u for u in used.get(pid, [])))
    open(os.path.join(root, pid + ".prompt.txt"), "w").write(txt)
print("ok", len(used))
