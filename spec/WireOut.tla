------------------------------ MODULE WireOut ------------------------------
(***************************************************************************)
(* The write side of one connection (protocol/binary_connection.rs         *)
(* write_data_to_stream, client_handler.rs handle_request):                *)
(*    for each request in turn: build the response, write it to the socket *)
(*    - write_all: as many write calls as the kernel needs to take all of  *)
(*    it, waiting while the send buffer is full - and only then go on to   *)
(*    the next request.                                                    *)
(* The kernel takes what fits into the send buffer (a partial write); the  *)
(* client drains the buffer whenever it likes (a slow reader: rarely).     *)
(*                                                                         *)
(* C11 / C12 on the byte level: what the client receives is a prefix of    *)
(* the concatenation of the complete responses in request order - so every *)
(* announced body length is followed by exactly that many bytes and the    *)
(* next response can be found - and it receives all of it if it keeps      *)
(* reading.                                                                *)
(*                                                                         *)
(* WriteAll = TRUE is the code.  WriteAll = FALSE is `write_buf` without a *)
(* loop (one write call, the count discarded): under back-pressure the     *)
(* rest of a response is dropped and the next header lands in its body.    *)
(***************************************************************************)
EXTENDS Naturals, Sequences, TLC

CONSTANTS Sizes,        \* response sizes in byte units, e.g. <<2, 3, 1>> (one response per request)
          SndBuf,       \* capacity of the kernel send buffer, e.g. 2
          WriteAll

VARIABLES cur,          \* index of the response being written (Len(Sizes) + 1: done)
          off,          \* units of it handed to the kernel so far
          inflight,     \* units in the send buffer, as <<response, unit>> pairs, oldest first
          got           \* what the client has received
vars == <<cur, off, inflight, got>>

SizesSmall == <<3, 1, 4, 2>>        \* (for the model-checking configurations)
RECURSIVE Flat(_)
Flat(i) == IF i > Len(Sizes) THEN <<>> ELSE [k \in 1..Sizes[i] |-> <<i, k>>] \o Flat(i + 1)
Whole == Flat(1)

Init == cur = 1 /\ off = 0 /\ inflight = <<>> /\ got = <<>>

(* one write call: the kernel takes n >= 1 units, at most what is left of the response and what fits *)
Write == /\ cur <= Len(Sizes) /\ off < Sizes[cur] /\ Len(inflight) < SndBuf
         /\ \E n \in 1..Sizes[cur] :
               /\ n <= Sizes[cur] - off /\ n <= SndBuf - Len(inflight)
               /\ inflight' = inflight \o [k \in 1..n |-> <<cur, off + k>>]
               /\ IF WriteAll
                  THEN off' = off + n /\ UNCHANGED cur                       \* write_all: loop until nothing is left
                  ELSE cur' = cur + 1 /\ off' = 0                            \* one call, the count is discarded
         /\ UNCHANGED got

(* the response is out: on to the next request *)
NextRequest == /\ cur <= Len(Sizes) /\ off = Sizes[cur]
               /\ cur' = cur + 1 /\ off' = 0
               /\ UNCHANGED <<inflight, got>>

(* the client reads some of what has arrived *)
ClientRead == /\ inflight # <<>>
              /\ \E n \in 1..Len(inflight) :
                    /\ got' = got \o SubSeq(inflight, 1, n)
                    /\ inflight' = SubSeq(inflight, n + 1, Len(inflight))
              /\ UNCHANGED <<cur, off>>

Next == Write \/ NextRequest \/ ClientRead
Done == cur > Len(Sizes) /\ inflight = <<>>
Spec == Init /\ [][Next \/ (Done /\ UNCHANGED vars)]_vars /\ WF_vars(Write) /\ WF_vars(NextRequest) /\ WF_vars(ClientRead)

IsPrefixOf(s, t) == Len(s) <= Len(t) /\ SubSeq(t, 1, Len(s)) = s
(* the client's view is always a prefix of the complete responses in order *)
StreamOK == IsPrefixOf(got \o inflight, Whole)
(* back-pressure: the server never runs ahead of the send buffer *)
Bounded == Len(inflight) <= SndBuf
(* a client that keeps reading gets everything *)
AllDelivered == <>(got = Whole)
=============================================================================
