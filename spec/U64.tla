------------------------------- MODULE U64 -------------------------------
(* Unsigned arithmetic on decimal strings.  TLC integers are 32-bit, the      *)
(* quantities memc-rs computes with (CAS, counters, deltas) are u64, so they   *)
(* travel as canonical decimal strings ("0", "17", "18446744073709551615").    *)
(* All operators are parametric in the modulus: `max` is the largest value,    *)
(* so exhaustive runs can use a one-digit universe ("9") in which wrap-around  *)
(* and saturation are reachable, and trace validation uses 2^64-1.             *)
EXTENDS Naturals, Sequences

U64Max == "18446744073709551615"
U32Max == "4294967295"

Digits == {"0","1","2","3","4","5","6","7","8","9"}
DigitVal == [c \in Digits |->
               CASE c = "0" -> 0 [] c = "1" -> 1 [] c = "2" -> 2 [] c = "3" -> 3
                 [] c = "4" -> 4 [] c = "5" -> 5 [] c = "6" -> 6 [] c = "7" -> 7
                 [] c = "8" -> 8 [] c = "9" -> 9]
DigitChr == <<"0","1","2","3","4","5","6","7","8","9">>   \* DigitChr[d+1]

Ch(s, i) == SubSeq(s, i, i)

RECURSIVE AllDigitsFrom(_, _)
AllDigitsFrom(s, i) == IF i > Len(s) THEN TRUE
                       ELSE Ch(s, i) \in Digits /\ AllDigitsFrom(s, i + 1)
(* non-empty and only decimal digits *)
IsDigits(s) == Len(s) > 0 /\ AllDigitsFrom(s, 1)

RECURSIVE StripFrom(_, _)
StripFrom(s, i) == IF i >= Len(s) THEN SubSeq(s, Len(s), Len(s))
                   ELSE IF Ch(s, i) = "0" THEN StripFrom(s, i + 1)
                   ELSE SubSeq(s, i, Len(s))
(* canonical form: no leading zeros, "0" for zero *)
Canon(s) == StripFrom(s, 1)

RECURSIVE Zeros(_)
Zeros(n) == IF n = 0 THEN "" ELSE "0" \o Zeros(n - 1)
Pad(s, n) == IF Len(s) >= n THEN s ELSE Zeros(n - Len(s)) \o s

(* comparison of canonical strings *)
RECURSIVE LexLess(_, _, _)
LexLess(a, b, i) == IF i > Len(a) THEN FALSE
                    ELSE IF DigitVal[Ch(a, i)] < DigitVal[Ch(b, i)] THEN TRUE
                    ELSE IF DigitVal[Ch(a, i)] > DigitVal[Ch(b, i)] THEN FALSE
                    ELSE LexLess(a, b, i + 1)
Less(a, b) == IF Len(a) # Len(b) THEN Len(a) < Len(b) ELSE LexLess(a, b, 1)
LessEq(a, b) == a = b \/ Less(a, b)

(* digit-wise addition of equally long strings, from the right *)
RECURSIVE AddFrom(_, _, _, _)
AddFrom(a, b, i, carry) ==
    IF i = 0 THEN (IF carry = 1 THEN "1" ELSE "")
    ELSE LET d == DigitVal[Ch(a, i)] + DigitVal[Ch(b, i)] + carry
         IN  AddFrom(a, b, i - 1, d \div 10) \o DigitChr[(d % 10) + 1]
Plus(a, b) == LET n == IF Len(a) > Len(b) THEN Len(a) ELSE Len(b)
              IN  Canon(AddFrom(Pad(a, n), Pad(b, n), n, 0))

(* a - b for a >= b *)
RECURSIVE SubFrom(_, _, _, _)
SubFrom(a, b, i, borrow) ==
    IF i = 0 THEN ""
    ELSE LET d == DigitVal[Ch(a, i)] - borrow
             e == DigitVal[Ch(b, i)]
         IN  IF d >= e THEN SubFrom(a, b, i - 1, 0) \o DigitChr[(d - e) + 1]
             ELSE SubFrom(a, b, i - 1, 1) \o DigitChr[(d + 10 - e) + 1]
Minus(a, b) == LET n == Len(a) IN Canon(SubFrom(a, Pad(b, n), n, 0))

(* (a + b) mod (max + 1), for a, b <= max *)
AddMod(a, b, max) == LET s == Plus(a, b)
                     IN  IF LessEq(s, max) THEN s ELSE Minus(s, Plus(max, "1"))
(* max(a - b, 0) *)
SubSat(a, b) == IF Less(a, b) THEN "0" ELSE Minus(a, b)
(* is the canonical or non-canonical digit string a value <= max ? *)
Fits(s, max) == IsDigits(s) /\ LessEq(Canon(s), max)

(* small naturals <-> strings (for sizes and the like) *)
RECURSIVE NatToStr(_)
NatToStr(n) == IF n < 10 THEN DigitChr[n + 1] ELSE NatToStr(n \div 10) \o DigitChr[(n % 10) + 1]

(* ---- ASCII text carried as hex strings ("3132" = "12") ---- *)
RECURSIVE HexDigitsFrom(_, _)
HexDigitsFrom(h, i) == IF i > Len(h) THEN ""
                       ELSE IF Ch(h, i) = "3" /\ Ch(h, i + 1) \in Digits
                            THEN Ch(h, i + 1) \o HexDigitsFrom(h, i + 2)
                            ELSE "x" \o HexDigitsFrom(h, i + 2)
(* the text of a hex string if it consists of ASCII digits only; contains "x" otherwise *)
HexText(h) == HexDigitsFrom(h, 1)
HexIsDigits(h) == Len(h) > 0 /\ Len(h) % 2 = 0 /\ IsDigits(HexText(h))
RECURSIVE TextHexFrom(_, _)
TextHexFrom(d, i) == IF i > Len(d) THEN "" ELSE "3" \o Ch(d, i) \o TextHexFrom(d, i + 1)
TextHex(d) == TextHexFrom(d, 1)
=============================================================================
