"""Dispatch of property ids to the modules that decide them."""
from vlib import ToolError, log
import props_seq

SEQ = {"C01", "C02", "C05", "C06", "C07", "C08", "C14", "C15", "C19"}


def dispatch(pid, tier, seed, replay):
    if pid in SEQ:
        rc = props_seq.run(pid, tier, seed, replay)
    else:
        raise ToolError("no check registered for %s" % pid)
    log("RESULT property=%s tier=%s exit=%d" % (pid, tier, rc))
    return rc
