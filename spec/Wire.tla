-------------------------------- MODULE Wire --------------------------------
(***************************************************************************)
(* One connection: the client's byte stream (a pipeline of frames), the    *)
(* socket, the connection buffer, the request decoder and the connection   *)
(* loop - as memc-rs implements them in                                    *)
(*   protocol/binary_codec.rs      decode / parse_header / parse_request   *)
(*   protocol/binary_connection.rs read_frame (oversize skip), skip_bytes  *)
(*   memcache_server/client_handler.rs  handle / handle_request (quit)     *)
(* one action per step of that code - together with the CONTRACT of        *)
(* C09 C10 C12 C13 C18 in functional form: Expected(stream) is what the    *)
(* frames mean (which are executed, which are answered, where the          *)
(* connection ends) independently of how the bytes are cut into reads.     *)
(*                                                                         *)
(* Bytes are abstract units: a header is H units, a frame announces and    *)
(* carries `bl` body units.  Every way of cutting the stream into client   *)
(* writes and server reads is explored (ClientSend / ServerRead /          *)
(* SkipRead take any number of available units), as is every point at      *)
(* which the client stops sending and closes (C18).                        *)
(***************************************************************************)
EXTENDS Naturals, Sequences, FiniteSets, TLC

CONSTANTS H,            \* header length in units
          Limit,        \* item size limit in units
          Cap0,         \* initial buffer capacity in units
          Alphabet,     \* set of frame shapes [kind, q, ans, bl]
          MaxFrames,    \* pipelines of 1..MaxFrames frames
          Cuts          \* TRUE: the client may stop and close at any offset (C18)

(* kinds:  canon   valid frame of an implemented opcode (executed; answered iff `ans`)
           quit    quit (q = FALSE: answered, then closed) / quitq (closed)
           unimpl  touch, gat, sasl: consumed, answered with an error iff `ans`
           odd     valid header, but not the shape of its opcode: refused (closed)
           badbody key > 250, extras > 20, key missing, body < key + extras: refused (closed)
           badhdr  wrong magic, opcode >= 0x25, data type # 0: refused at the header (closed)
           over    body length above the item limit: answered 'too large', body skipped *)
Kinds == {"canon", "quit", "unimpl", "odd", "badbody", "badhdr", "over"}

RECURSIVE SeqsUpTo(_, _)
SeqsUpTo(S, n) == IF n = 0 THEN {<<>>}
                  ELSE LET shorter == SeqsUpTo(S, n - 1)
                       IN  shorter \cup {Append(q, x) : q \in {r \in shorter : Len(r) = n - 1}, x \in S}
Streams == SeqsUpTo(Alphabet, MaxFrames) \ {<<>>}

RECURSIVE StartOf(_, _)
StartOf(st, i) == IF i = 1 THEN 0 ELSE StartOf(st, i - 1) + H + st[i - 1].bl
TotalLen(st) == StartOf(st, Len(st) + 1)
Starts(st) == {StartOf(st, i) : i \in 1..(Len(st) + 1)}

(***************************************************************************)
(* The contract in functional form.                                        *)
(*   Expected(st, upto): frames of st that lie completely before offset     *)
(*   `upto`, walked in order: [exec, resp, closed]                          *)
(***************************************************************************)
RECURSIVE Walk(_, _, _, _)
Walk(st, i, upto, acc) ==
    IF i > Len(st) THEN acc
    ELSE IF st[i].kind = "over" /\ StartOf(st, i) + H <= upto THEN
        \* 'too large' is decided (and answered) from the header alone
        Walk(st, i + 1, upto, [acc EXCEPT !.resp = Append(@, <<i, "toolarge">>)])
    ELSE IF StartOf(st, i + 1) > upto THEN
        \* an invalid header may be refused as soon as the header is there
        IF StartOf(st, i) + H <= upto /\ st[i].kind = "badhdr" THEN [acc EXCEPT !.closed = TRUE] ELSE acc
    ELSE LET f == st[i] IN
         CASE f.kind = "canon"  -> Walk(st, i + 1, upto, [acc EXCEPT !.exec = Append(@, i),
                                                                  !.resp = IF f.ans THEN Append(@, <<i, "ok">>) ELSE @])
           [] f.kind = "unimpl" -> Walk(st, i + 1, upto, [acc EXCEPT !.resp = IF f.ans THEN Append(@, <<i, "err">>) ELSE @])
           [] f.kind = "quit"   -> [acc EXCEPT !.resp = IF f.q THEN @ ELSE Append(@, <<i, "ok">>), !.closed = TRUE]
           [] OTHER             -> [acc EXCEPT !.closed = TRUE]          \* odd, badbody, badhdr: refused
Expected(st, upto) == Walk(st, 1, upto, [exec |-> <<>>, resp |-> <<>>, closed |-> FALSE])

IsPrefix(a, b) == Len(a) <= Len(b) /\ \A i \in 1..Len(a) : a[i] = b[i]

(***************************************************************************)
(* The model of the code                                                   *)
(***************************************************************************)
VARIABLES st,       \* the client's stream (fixed per behaviour)
          cutAt,    \* the client sends only the first cutAt units, then closes
          sent,     \* units the client has written
          eof,      \* the client has closed its side
          sock,     \* units in the socket, not yet read by the server
          buf,      \* units in the connection buffer
          cap,      \* capacity of the connection buffer
          pos,      \* stream offset of the first unit not yet consumed by the server
          cur,      \* index of the frame whose header is at / was read at pos
          dstate,   \* decoder: "None" | "Header"
          skip,     \* units of an oversized body still to be discarded from the socket
          closed,   \* the server has left the connection loop
          exec, resp,
          reads     \* history: sizes of the server's reads (for replay)
vars == <<st, cutAt, sent, eof, sock, buf, cap, pos, cur, dstate, skip, closed, exec, resp, reads>>

Init == /\ st \in Streams
        /\ cutAt \in (IF Cuts THEN 0..TotalLen(st) ELSE {TotalLen(st)})
        /\ sent = 0 /\ eof = FALSE /\ sock = 0 /\ buf = 0 /\ cap = Cap0 /\ pos = 0 /\ cur = 1
        /\ dstate = "None" /\ skip = 0 /\ closed = FALSE /\ exec = <<>> /\ resp = <<>> /\ reads = <<>>

ClientSend == /\ ~eof /\ sent < cutAt
              /\ \E n \in 1..(cutAt - sent) : sent' = sent + n /\ sock' = sock + n
              /\ UNCHANGED <<st, cutAt, eof, buf, cap, pos, cur, dstate, skip, closed, exec, resp, reads>>

ClientClose == /\ ~eof /\ sent = cutAt
               /\ eof' = TRUE
               /\ UNCHANGED <<st, cutAt, sent, sock, buf, cap, pos, cur, dstate, skip, closed, exec, resp, reads>>

F == st[cur]
(* what decode() would do with the buffer as it is *)
NeedsHeader == dstate = "None" /\ buf < H
NeedsBody   == dstate = "Header" /\ F.bl <= Limit /\ F.bl > buf
Starved == ~closed /\ skip = 0 /\ (NeedsHeader \/ NeedsBody)

(* read_frame: decode returned None -> read_buf; 0 bytes = the peer closed *)
ServerRead == /\ Starved
              /\ \/ /\ sock > 0
                    /\ \E n \in 1..sock :
                          /\ n <= (IF cap > buf THEN cap - buf ELSE 1)      \* read_buf fills spare capacity (grows by a little if full)
                          /\ sock' = sock - n /\ buf' = buf + n
                          /\ cap' = IF buf + n > cap THEN buf + n ELSE cap
                          /\ reads' = Append(reads, n)
                    /\ UNCHANGED closed
                 \/ /\ sock = 0 /\ eof
                    /\ closed' = TRUE /\ UNCHANGED <<sock, buf, cap, reads>>
              /\ UNCHANGED <<st, cutAt, sent, eof, pos, cur, dstate, skip, exec, resp>>

(* skip_bytes: the rest of an oversized body is read straight off the socket *)
SkipRead == /\ ~closed /\ skip > 0
            /\ \/ /\ sock > 0
                  /\ \E n \in 1..(IF sock < skip THEN sock ELSE skip) :
                        /\ sock' = sock - n /\ skip' = skip - n /\ pos' = pos + n
                        /\ reads' = Append(reads, n)
                  /\ UNCHANGED closed
               \/ /\ sock = 0 /\ eof
                  /\ closed' = TRUE /\ UNCHANGED <<sock, skip, pos, reads>>
            /\ UNCHANGED <<st, cutAt, sent, eof, buf, cap, cur, dstate, exec, resp>>

(* parse_header: 24 bytes are there *)
ParseHeader == /\ ~closed /\ skip = 0 /\ dstate = "None" /\ buf >= H /\ cur <= Len(st)
               /\ IF F.kind = "badhdr"
                  THEN closed' = TRUE /\ UNCHANGED <<buf, pos, dstate, cap>>
                  ELSE /\ dstate' = "Header" /\ buf' = buf - H /\ pos' = pos + H
                       /\ cap' = IF F.bl <= Limit /\ (buf - H) + F.bl > cap THEN (buf - H) + F.bl ELSE cap   \* reserve(body_length)
                       /\ UNCHANGED closed
               /\ UNCHANGED <<st, cutAt, sent, eof, sock, cur, skip, exec, resp, reads>>

(* header parsed, body above the limit: ItemTooLarge + the connection's discard arithmetic *)
TooLarge == /\ ~closed /\ skip = 0 /\ dstate = "Header" /\ F.bl > Limit
            /\ resp' = Append(resp, <<cur, "toolarge">>)
            /\ IF buf >= F.bl THEN buf' = buf - F.bl /\ pos' = pos + F.bl /\ skip' = 0
                              ELSE buf' = 0 /\ pos' = pos + buf /\ skip' = F.bl - buf
            /\ dstate' = "None" /\ cur' = cur + 1
            /\ UNCHANGED <<st, cutAt, sent, eof, sock, cap, closed, exec, reads>>

(* parse_request: the whole body is buffered *)
ParseRequest ==
    /\ ~closed /\ skip = 0 /\ dstate = "Header" /\ F.bl <= Limit /\ F.bl <= buf
    /\ IF F.kind \in {"odd", "badbody"} THEN
            closed' = TRUE /\ UNCHANGED <<buf, pos, dstate, cur, exec, resp>>
       ELSE /\ buf' = buf - F.bl /\ pos' = pos + F.bl /\ dstate' = "None" /\ cur' = cur + 1
            /\ CASE F.kind = "canon"  -> /\ exec' = Append(exec, cur)
                                         /\ resp' = IF F.ans THEN Append(resp, <<cur, "ok">>) ELSE resp
                                         /\ UNCHANGED closed
                 [] F.kind = "unimpl" -> /\ resp' = IF F.ans THEN Append(resp, <<cur, "err">>) ELSE resp
                                         /\ UNCHANGED <<exec, closed>>
                 [] OTHER (* quit *)  -> /\ resp' = IF F.q THEN resp ELSE Append(resp, <<cur, "ok">>)
                                         /\ closed' = TRUE /\ UNCHANGED exec
    /\ UNCHANGED <<st, cutAt, sent, eof, sock, cap, skip, reads>>

Next == ClientSend \/ ClientClose \/ ServerRead \/ SkipRead \/ ParseHeader \/ TooLarge \/ ParseRequest
Spec == Init /\ [][Next]_vars /\ WF_vars(Next)

(***************************************************************************)
(* Properties                                                              *)
(***************************************************************************)
(* C09: between requests the server stands at a frame boundary *)
Aligned == (~closed /\ dstate = "None" /\ skip = 0) => (pos + buf + sock = sent /\ (pos \in Starts(st)) /\ pos = StartOf(st, cur))
(* C09 C12 C13 C18: whatever the cuts, what has been executed / answered is a prefix of what the
   frames sent so far mean; never anything of a frame that is not complete yet *)
Exp == Expected(st, sent)
SafePrefix == IsPrefix(exec, Exp.exec) /\ IsPrefix(resp, Exp.resp)
(* when everything is said and done the outcome is exactly what the frames mean *)
Quiescent == eof /\ (closed \/ (sock = 0 /\ ~ENABLED ParseHeader /\ ~ENABLED TooLarge /\ ~ENABLED ParseRequest))
Final == (eof /\ closed) => (exec = Expected(st, cutAt).exec /\ resp = Expected(st, cutAt).resp)
(* C10: an invalid frame is never executed *)
NeverExecInvalid == \A i \in 1..Len(exec) : st[exec[i]].kind = "canon"
(* C10: buffered memory stays within the item limit plus the initial buffer *)
BufBound == buf <= cap /\ cap <= Cap0 + Limit + H + 1
(* C12: nothing is executed or answered after quit *)
QuitFinal == \A i \in 1..Len(exec) : \A j \in 1..(exec[i] - 1) : st[j].kind # "quit"
(* C16/C10: the connection always comes to an end once the client has closed (no hang, no loop) *)
Terminates == <>(eof /\ closed)
=============================================================================
