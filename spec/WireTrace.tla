------------------------------ MODULE WireTrace ------------------------------
(***************************************************************************)
(* Trace validation of the request decoder (C09 C10 C11 C12 at the decoder *)
(* level).  A trace is a list of streams; every stream is run under many   *)
(* segmentations ("universes"); a run is the sequence of decode calls the  *)
(* connection loop would make.  The contract:                              *)
(*  - a request is taken from exactly the 24 + body-length bytes its       *)
(*    header announces, in order, each at most once (C09, C12);            *)
(*  - a canonical frame is never refused; an odd frame is either consumed  *)
(*    exactly or the connection is closed; an invalid frame is never       *)
(*    executed (C10); an unimplemented loud opcode is answered (C12);      *)
(*  - the decoder never sits on a complete frame (no hang), never panics,  *)
(*    and the buffer capacity stays below limit + 128 KiB (C10);           *)
(*  - every response is well-formed and echoes opcode and opaque (C11);    *)
(*  - the executed requests, the response bytes and the final state are    *)
(*    the same for every segmentation of the same stream (C09).            *)
(***************************************************************************)
EXTENDS WireFrames, TLC, Json, IOUtils

Rec == ndJsonDeserialize(IOEnv.TRACE)
N   == Len(Rec)
Slack == 131072

StatusTable == {0, 1, 2, 3, 4, 5, 6, 32, 33, 129, 130, 131, 132, 133, 134}

VARIABLES l, sm, run, viol, cov
vars == <<l, sm, run, viol, cov>>

NoStream == [id |-> 0, limit |-> 0, frames |-> <<>>, starts |-> <<>>, len |-> 0, first |-> <<>>, dead |-> FALSE, expect |-> <<>>]
NoRun == [u |-> 0, fi |-> 1, fed |-> 0, closed |-> FALSE, dead |-> TRUE]

Init == l = 1 /\ sm = NoStream /\ run = NoRun /\ viol = <<>> /\ cov = <<>>

RECURSIVE Starts(_, _, _)
Starts(fr, i, at) == IF i > Len(fr) THEN <<>> ELSE <<at>> \o Starts(fr, i + 1, at + HeaderLen + fr[i].sent)

Count(c, rule) == IF \E i \in 1..Len(c) : c[i][1] = rule
                  THEN [i \in 1..Len(c) |-> IF c[i][1] = rule THEN <<rule, c[i][2] + 1>> ELSE c[i]]
                  ELSE Append(c, <<rule, 1>>)

NF == Len(sm.frames)
Cur == sm.frames[run.fi]
CurClass == IF run.fi > NF THEN "garbage" ELSE Class(Cur, sm.limit)
(* announced end of the current frame, and whether the stream contains all of it *)
CurEnd == sm.starts[run.fi] + HeaderLen + Cur.bl
CurComplete == run.fi <= NF /\ ~Cur.blbig /\ Cur.sent >= Cur.bl

RespOK(f, r) ==
    /\ r.short = 0 /\ r.magic = 129 /\ r.op = f.op /\ r.opq = f.opq /\ r.dt = 0
    /\ r.st \in StatusTable /\ r.bl = r.al
    /\ Len(r.x) = 2 * r.el /\ Len(r.key) = 2 * r.kl
    /\ r.bl = r.el + r.kl + (Len(r.v) \div 2)

Bad(tags, rule, e) == [tags |-> tags, rule |-> rule]

(* judgement of one event in the current run: [tags, rule] *)
JudgeDec(e) ==
    IF e.out = "panic" THEN Bad({"C10"}, "panic", e)
    ELSE IF e.cap > sm.limit + Slack THEN Bad({"C10"}, "buffer.bloat", e)
    ELSE IF CurClass = "garbage" THEN Bad({}, "garbage", e)            \* beyond the described frames: anything but a panic
    ELSE IF e.out = "none" THEN
        \* waiting for more bytes is right only while the frame is not completely there
        IF CurClass = "oversize" /\ run.fed >= sm.starts[run.fi] + HeaderLen THEN Bad({"C13", "C10"}, "oversize.waits", e)
        ELSE IF CurClass # "oversize" /\ CurComplete /\ run.fed >= CurEnd
             THEN Bad(IF CurClass = "unimpl" THEN {"C12", "C09"} ELSE {"C09", "C10", "C12"}, "stuck.on.complete.frame", e)
        ELSE Bad({}, "await", e)
    ELSE IF e.out = "err" THEN
        IF CurClass \in {"odd", "invalid"} THEN Bad({}, "closed." \o CurClass, e)
        ELSE Bad(IF CurClass = "unimpl" THEN {"C12"} ELSE {"C09", "C12"}, "closed.on." \o CurClass, e)
    ELSE \* a request was handed to the handler
        IF e.opq # Cur.opq \/ e.opc # Cur.op THEN Bad({"C09", "C11"}, "wrong.frame", e)
        ELSE IF \E i \in 1..Len(e.r) : ~RespOK(Cur, e.r[i]) THEN Bad({"C11"}, "malformed.response", e)
        ELSE IF CurClass = "oversize" THEN
            IF e.toolarge /\ Len(e.r) = 1 /\ e.r[1].st = 3 THEN Bad({}, "oversize", e) ELSE Bad({"C13"}, "oversize.bad", e)
        ELSE IF e.toolarge \/ (Len(e.r) = 1 /\ e.r[1].st = 3) THEN Bad({"C13"}, "toolarge.within.limit", e)
        ELSE IF ~CurComplete \/ e.pos # CurEnd THEN Bad({"C09"}, "misaligned." \o CurClass, e)
        ELSE IF CurClass = "invalid" THEN
            IF Len(e.r) = 1 /\ e.r[1].st # 0 THEN Bad({}, "invalid.refused", e) ELSE Bad({"C10"}, "invalid.executed", e)
        ELSE IF CurClass = "unimpl" THEN
            IF Len(e.r) = 1 \/ (IsQuiet(Cur.op) /\ Len(e.r) = 0) THEN Bad({}, "unimpl.answered", e)
            ELSE Bad({"C12"}, "unimpl.unanswered", e)
        ELSE IF Len(e.r) > 1 \/ (~IsQuiet(Cur.op) /\ Len(e.r) # 1) THEN Bad({"C12"}, "loud.not.one.response", e)
        ELSE Bad({}, "executed." \o CurClass, e)

Summary(e) == [exec |-> e.exec, resp |-> e.resp, closed |-> e.closed, pos |-> e.pos, panic |-> e.panic]

Step ==
    /\ l <= N
    /\ l' = l + 1
    /\ LET e == Rec[l] IN
       IF e.e = "stream" THEN
            /\ sm' = [id |-> e.id, limit |-> e.limit, frames |-> e.frames, starts |-> Starts(e.frames, 1, 0),
                      len |-> e.len, first |-> <<>>, dead |-> FALSE,
                      expect |-> IF "expect" \in DOMAIN e THEN <<e.expect>> ELSE <<>>]
            /\ run' = NoRun /\ UNCHANGED <<viol, cov>>
       ELSE IF e.e = "run" THEN
            /\ run' = [u |-> e.u, fi |-> 1, fed |-> 0, closed |-> FALSE, dead |-> sm.dead]
            /\ UNCHANGED <<sm, viol, cov>>
       ELSE IF run.dead THEN UNCHANGED <<sm, run, viol, cov>>
       ELSE IF e.e = "feed" THEN run' = [run EXCEPT !.fed = e.fed] /\ UNCHANGED <<sm, viol, cov>>
       ELSE IF e.e \in {"quiet", "dec"} THEN
            LET ev == IF e.e = "quiet" THEN [out |-> "none", cap |-> 0] ELSE e
                r2 == IF e.e = "quiet" THEN [run EXCEPT !.fed = e.fed] ELSE run
                j  == LET rr == r2 IN
                      \* evaluate the judgement with the fed count of this event
                      IF e.e = "quiet"
                      THEN (IF r2.fi <= NF /\ Class(sm.frames[r2.fi], sm.limit) = "oversize"
                               /\ r2.fed >= sm.starts[r2.fi] + HeaderLen THEN Bad({"C13", "C10"}, "oversize.waits", e)
                            ELSE IF r2.fi <= NF /\ Class(sm.frames[r2.fi], sm.limit) # "oversize"
                                    /\ ~sm.frames[r2.fi].blbig /\ sm.frames[r2.fi].sent >= sm.frames[r2.fi].bl
                                    /\ r2.fed >= sm.starts[r2.fi] + HeaderLen + sm.frames[r2.fi].bl
                                 THEN Bad({"C09", "C10", "C12"}, "stuck.on.complete.frame", e)
                            ELSE Bad({}, "await", e))
                      ELSE JudgeDec(e)
            IN  /\ cov' = Count(cov, j.rule)
                /\ IF j.tags = {} THEN
                        /\ run' = IF e.e = "dec" /\ e.out = "frame" THEN [r2 EXCEPT !.fi = @ + 1]
                                  ELSE IF e.e = "dec" /\ e.out = "err" THEN [r2 EXCEPT !.closed = TRUE]
                                  ELSE r2
                        /\ UNCHANGED <<sm, viol>>
                   ELSE /\ viol' = Append(viol, [line |-> l, stream |-> sm.id, u |-> run.u, tags |-> j.tags, rule |-> j.rule,
                                                 fi |-> run.fi, cls |-> CurClass])
                        /\ run' = [r2 EXCEPT !.dead = TRUE]
                        /\ sm' = [sm EXCEPT !.dead = TRUE]          \* one report per stream
       ELSE \* end of a run: the outcome must not depend on the segmentation
            IF e.panic THEN /\ viol' = Append(viol, [line |-> l, stream |-> sm.id, u |-> run.u, tags |-> {"C10"}, rule |-> "panic",
                                                      fi |-> run.fi, cls |-> "?"])
                            /\ sm' = [sm EXCEPT !.dead = TRUE] /\ UNCHANGED <<run, cov>>
            ELSE IF sm.expect # <<>> /\ [i \in 1..Len(sm.expect[1].resp) |-> sm.expect[1].resp[i][1]] # e.ropq THEN
                 /\ viol' = Append(viol, [line |-> l, stream |-> sm.id, u |-> run.u, tags |-> {"DRIFT"},
                                          rule |-> "model.mismatch", fi |-> run.fi, cls |-> "?"])
                 /\ sm' = [sm EXCEPT !.dead = TRUE] /\ UNCHANGED <<run, cov>>
            ELSE IF sm.first = <<>> THEN sm' = [sm EXCEPT !.first = <<Summary(e)>>] /\ cov' = Count(cov, "universe") /\ UNCHANGED <<run, viol>>
            ELSE IF sm.first[1] = Summary(e) THEN cov' = Count(cov, "universe") /\ UNCHANGED <<sm, run, viol>>
            ELSE /\ viol' = Append(viol, [line |-> l, stream |-> sm.id, u |-> run.u, tags |-> {"C09"},
                                          rule |-> "segmentation.dependent", fi |-> run.fi, cls |-> "?"])
                 /\ sm' = [sm EXCEPT !.dead = TRUE] /\ UNCHANGED <<run, cov>>

Next == Step
Spec == Init /\ [][Next]_vars
Report == l = N + 1 => PrintT("RESULT " \o ToJson([lines |-> N, violations |-> viol, coverage |-> cov, notes |-> <<>>]))
Accepted == TLCGet("stats").diameter - 1 = N
=============================================================================
