CONSTANTS
  H = 2
  Limit = 2
  Cap0 = 4
  Alphabet <- AlphaSmall
  MaxFrames = 3
  Cuts = TRUE
SPECIFICATION Spec
INVARIANT EmitCase
CHECK_DEADLOCK FALSE
