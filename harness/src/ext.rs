//! Configuration suite (C20): the real `memcrsd` binary started with a given command line, driven
//! black-box over its socket with the same seeded programs and probes for every configuration.
use crate::conn;
use crate::prog::{self, CasSpec, Cmd, History, Step};
use crate::proto::{hex, parse_responses, Frame};
use crate::seq::{cmd_event, frame_of, Tokens};
use crate::tcp::{self, Client};
use rand::rngs::SmallRng;
use rand::SeedableRng;
use serde_json::{json, Value};
use std::io::Write;
use std::net::Shutdown;
use std::process::{Child, Command, Stdio};
use std::time::{Duration, Instant};

pub fn spawn_server(bin: &str, args: &[String], port: u16) -> Option<Child> {
    let child = Command::new(bin).args(args).stdout(Stdio::null()).stderr(Stdio::null()).spawn().ok()?;
    let t0 = Instant::now();
    loop {
        if let Ok(c) = Client::connect(port) {
            let _ = c.s.shutdown(Shutdown::Both);
            break;
        }
        if t0.elapsed() > Duration::from_secs(8) {
            return None;
        }
        std::thread::sleep(Duration::from_millis(20));
    }
    std::thread::sleep(Duration::from_millis(100));
    Some(child)
}

fn one(c: &mut Client, f: &Frame) -> Vec<Value> {
    use std::io::Write as W;
    let mut b = f.bytes();
    b.extend_from_slice(&Frame::consistent(0x0a, &[], &[], &[], tcp::SENTINEL, 0).bytes());
    if c.s.write_all(&b).is_err() {
        return vec![];
    }
    let (resp, _how) = c.read_until(Duration::from_millis(6000), &|x| tcp::has_opaque(x, tcp::SENTINEL));
    parse_responses(&resp).into_iter().filter(|r| r["opq"].as_str() != Some(&tcp::SENTINEL.to_string())).collect()
}

fn finish_event(mut ev: Value, rs: Vec<Value>) -> Value {
    let o = ev.as_object_mut().unwrap();
    o.insert("dec".into(), json!("frame"));
    o.insert("panic".into(), json!(false));
    o.insert("r".into(), json!(rs));
    o.insert("present".into(), json!([]));
    o.insert("bytes".into(), json!(0));
    o.insert("usage".into(), json!(""));
    ev
}

/// A history over `nconn` connections used in turn, one command at a time (so that a store made on one
/// connection is read on another).  No clock control: programs must not contain ticks.
pub fn run_history_ext(h: &History, port: u16, nconn: usize, item_limit: u32, out: &mut dyn Write, hist_no: usize) -> (usize, String) {
    let mut conns: Vec<Client> = (0..nconn).filter_map(|_| Client::connect(port).ok()).collect();
    if conns.is_empty() {
        return (0, String::new());
    }
    let mut tokens = Tokens::default();
    writeln!(out, "{}", json!({"e": "reset", "h": hist_no, "name": h.name, "obs": false, "phys": false,
        "cfg": {"policy": "none", "L": 0, "limit": item_limit},
        "keys": h.keys.iter().map(|k| hex(k)).collect::<Vec<_>>()})).unwrap();
    let mut events = 1;
    // start from an empty store
    let fl = Frame::consistent(0x08, &[], &[], &[], 1, 0);
    let _ = one(&mut conns[0], &fl);
    let mut summary = String::new();
    let mut opq = 10u32;
    for (i, s) in h.steps.iter().enumerate() {
        if let Step::Cmd(c) = s {
            if c.op == "quit" {
                continue;
            }
            let cas = tokens.concretise(&c.key, &c.cas);
            let mut c2 = c.clone();
            opq += 1;
            c2.opaque = opq;
            let fr = frame_of(&c2, cas);
            let ev = cmd_event(&c2, cas, &fr);
            let n = conns.len();
            let rs = one(&mut conns[i % n], &fr);
            tokens.learn(&c.key, &rs);
            for r in &rs {
                // summary for the cross-configuration comparison: everything but the CAS value
                summary.push_str(&format!("{}:{}:{}:{}:{}|", r["op"], r["st"], r["key"].as_str().unwrap_or(""), r["v"].as_str().unwrap_or(""), r["f"].as_str().unwrap_or("")));
            }
            summary.push(';');
            writeln!(out, "{}", finish_event(ev, rs)).unwrap();
            events += 1;
        }
    }
    for c in conns.iter_mut() {
        let _ = c.s.shutdown(Shutdown::Both);
    }
    (events, summary)
}

fn getcmd(key: &[u8], opq: u32) -> Cmd {
    Cmd { op: "get".into(), q: false, gk: false, key: key.to_vec(), val: vec![], flags: 0, ttl: 0, cas: CasSpec::Lit(0), opaque: opq, delta: 0, initial: 0 }
}

/// Real-time expiry probe: set ttl=3, read after 1.0 s (must hit) and after 4.2 s (must miss).  The server's
/// clock is not known; the trace carries the bounds that follow from real elapsed time (see DESIGN C20).
pub fn ttl_probe(port: u16, item_limit: u32, out: &mut dyn Write, hist_no: usize) -> usize {
    let mut c = match Client::connect(port) {
        Ok(c) => c,
        Err(_) => return 0,
    };
    let key = b"ttlprobe".to_vec();
    writeln!(out, "{}", json!({"e": "reset", "h": hist_no, "name": "ttl-probe", "obs": false, "phys": false,
        "cfg": {"policy": "none", "L": 0, "limit": item_limit}, "keys": [hex(&key)]})).unwrap();
    let _ = one(&mut c, &Frame::consistent(0x08, &[], &[], &[], 1, 0));
    writeln!(out, "{}", json!({"e": "tick", "to": 100})).unwrap();
    let set = Cmd { op: "set".into(), q: false, gk: false, key: key.clone(), val: b"alive".to_vec(), flags: 5, ttl: 3, cas: CasSpec::Lit(0), opaque: 21, delta: 0, initial: 0 };
    let fr = frame_of(&set, 0);
    let t0 = Instant::now();
    let rs = one(&mut c, &fr);
    writeln!(out, "{}", finish_event(cmd_event(&set, 0, &fr), rs)).unwrap();
    // at most two ticks of the 1 Hz clock can fall into 1.0 s
    std::thread::sleep(Duration::from_millis(1000).saturating_sub(t0.elapsed()));
    writeln!(out, "{}", json!({"e": "tick", "to": 102})).unwrap();
    let g = getcmd(&key, 22);
    let fr = frame_of(&g, 0);
    let rs = one(&mut c, &fr);
    writeln!(out, "{}", finish_event(cmd_event(&g, 0, &fr), rs)).unwrap();
    // at least four ticks fall into 4.2 s
    std::thread::sleep(Duration::from_millis(4200).saturating_sub(t0.elapsed()));
    writeln!(out, "{}", json!({"e": "tick", "to": 104})).unwrap();
    let g = getcmd(&key, 23);
    let fr = frame_of(&g, 0);
    let rs = one(&mut c, &fr);
    writeln!(out, "{}", finish_event(cmd_event(&g, 0, &fr), rs)).unwrap();
    let _ = c.s.shutdown(Shutdown::Both);
    7
}

/// Item-limit probe as a WireTcpTrace stream: a body of exactly the limit is stored, one byte more is refused.
pub fn limit_probe(port: u16, item_limit: u32, out: &mut dyn Write, id: usize) {
    let mut ex = Vec::new();
    ex.extend_from_slice(&1u32.to_be_bytes());
    ex.extend_from_slice(&0u32.to_be_bytes());
    let vlen = item_limit as usize - 8 - 2;
    let mut rng = SmallRng::seed_from_u64(7);
    let frames = vec![
        Frame::consistent(0x01, &ex, b"at", &vec![b'z'; vlen], 31, 0),
        crate::tcpgen::oversize_frame(&mut rng, 32, item_limit, item_limit + 1),
        Frame::consistent(0x00, &[], b"at", &[], 33, 0),
        Frame::consistent(0x00, &[], b"big", &[], 34, 0),
    ];
    let s = crate::wire::Stream { name: "limit-probe".into(), limit: item_limit, frames, tail: vec![] };
    let bytes = s.bytes();
    writeln!(out, "{}", crate::wire::stream_event(id, &s, bytes.len())).unwrap();
    for (u, seg) in [vec![bytes.len()], vec![24 + item_limit as usize / 2, 24 + item_limit as usize + 5]].iter().enumerate() {
        // an empty store for every universe
        if let Ok(mut c) = Client::connect(port) {
            let _ = one(&mut c, &Frame::consistent(0x08, &[], &[], &[], 1, 0));
            let _ = c.s.shutdown(Shutdown::Both);
        }
        let (resp, how, delivered, _lp) = tcp::exchange(port, &s.frames, seg, true, 30);
        let rs = parse_responses(&resp);
        let mut masked = resp.clone();
        let mut i = 0;
        while i + 24 <= masked.len() {
            let bl = u32::from_be_bytes([masked[i + 8], masked[i + 9], masked[i + 10], masked[i + 11]]) as usize;
            for b in masked[i + 16..i + 24].iter_mut() {
                *b = 0;
            }
            i += 24 + bl;
        }
        writeln!(out, "{}", json!({"e": "trun", "u": u + 1, "seg": format!("{:?}", seg), "how": how, "delivered": delivered,
            "r": rs, "resp": hex(&masked), "store": [], "nreads": 0, "maxcap": 0})).unwrap();
    }
}

pub fn programs(seed: u64, count: usize) -> Vec<History> {
    let mut rng = SmallRng::seed_from_u64(seed);
    let mut out = Vec::new();
    for i in 0..count {
        let mut h = prog::generate(&format!("cfg-{}-{}", seed, i), if i % 2 == 0 { "general" } else { "cas" }, &mut rng);
        // no clock control over a real server: drop ticks, neutralise TTLs and delayed flushes
        h.steps.retain(|s| !matches!(s, Step::Tick(_)));
        for s in h.steps.iter_mut() {
            if let Step::Cmd(c) = s {
                if c.ttl != 0xffff_ffff {
                    c.ttl = 0;
                }
            }
        }
        h.cfg.policy = "none".into();
        out.push(h);
    }
    out
}

/// The whole suite against one running server.
pub fn suite(port: u16, conn_limit: u32, item_limit: u32, seed: u64, nprog: usize, prefix: &str, ttl: bool) -> Value {
    let mut cmd_out = std::io::BufWriter::new(std::fs::File::create(format!("{}.cmd.ndjson", prefix)).unwrap());
    let mut wire_out = std::io::BufWriter::new(std::fs::File::create(format!("{}.wire.ndjson", prefix)).unwrap());
    let mut conn_out = std::io::BufWriter::new(std::fs::File::create(format!("{}.conn.ndjson", prefix)).unwrap());
    let mut summaries = Vec::new();
    let mut events = 0;
    for (i, h) in programs(seed, nprog).iter().enumerate() {
        let mut h2 = h.clone();
        h2.cfg.item_limit = item_limit;
        let (n, s) = run_history_ext(&h2, port, 1 + i % 2, item_limit, &mut cmd_out, i + 1);
        events += n;
        summaries.push(s);
    }
    if ttl {
        events += ttl_probe(port, item_limit, &mut cmd_out, nprog + 1);
    }
    limit_probe(port, item_limit, &mut wire_out, 1);
    // connection limit: black-box scenario (no hook events from another process)
    let mut rng = SmallRng::seed_from_u64(seed + 99);
    let mut sc = conn::gen_scenario(&mut rng, conn_limit);
    sc["item_limit"] = json!(item_limit);
    // no idle way: the binary's receive timeout is 60 s
    if let Some(steps) = sc["steps"].as_array_mut() {
        for st in steps.iter_mut() {
            if st["way"] == "idle" || st["way"] == "idlemid" {
                st["way"] = json!("close");
            }
        }
    }
    conn::run_scenario_on(&sc, port, false, &mut conn_out, 1);
    cmd_out.flush().unwrap();
    wire_out.flush().unwrap();
    conn_out.flush().unwrap();
    json!({"events": events, "summaries": summaries})
}
