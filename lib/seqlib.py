"""Sequential store-semantics checks: drive the `seq` harness with generated programs and
validate the recorded traces against MemcContract with TLC."""
import json
import os
import time
from vlib import *


def gen_and_validate(jobs, tag, phys=False):
    """jobs: list of (profile, count, seed).  Returns list of result dicts (one per job) with
    'violations' each carrying the offending event and its history's program."""
    d = workdir("seq-" + tag)

    def one(job):
        profile, count, seed = job
        base = os.path.join(d, "%s-%s" % (profile, seed))
        args = ["gen-seq", "--profile", profile, "--count", count, "--seed", seed,
                "--out", base + ".ndjson", "--programs", base + ".prog.json"]
        if profile == "quietpair":
            args.append("--pairs")
        if phys:
            args.append("--phys")
        st = harness(args)
        res = tlc_trace(base + ".ndjson", name="%s-%s-%s" % (tag, profile, seed))
        res["job"] = job
        res["histories"] = st.get("histories", 0)
        res["programs"] = base + ".prog.json"
        return res

    return parallel(one, jobs, workers=12)


def run_programs(prog_file, tag, phys=False, spec="MemcTrace", pairs=False):
    d = workdir("seq-" + tag)
    out = os.path.join(d, "trace.ndjson")
    args = ["run-seq", "--programs", prog_file, "--out", out]
    if pairs:
        args.append("--pairs")
    if phys:
        args.append("--phys")
    st = harness(args)
    res = tlc_trace(out, spec=spec, name=tag)
    res["histories"] = st.get("histories", 0)
    res["programs"] = prog_file
    return res


def violation_context(res, v, before=0):
    """The offending event, the program of its history and the events of that history up to it."""
    evs = read_ndjson(res["trace_file"])
    line = v["line"]
    # find start of history
    start = line - 1
    while start > 0 and evs[start].get("e") != "reset":
        start -= 1
    hist = evs[start:line]
    prog = None
    if res.get("programs") and os.path.exists(res["programs"]):
        progs = [l for l in open(res["programs"]) if l.strip()]
        hno = evs[start].get("h", 1)
        if evs[line - 1].get("e") == "final":
            hno = evs[line - 1].get("pair", 1)          # paired runs: two histories per program
        if 1 <= hno <= len(progs):
            prog = json.loads(progs[hno - 1])
    return {"event": evs[line - 1], "history_events": hist, "program": prog}


def slim(ev):
    """Short printable form of an event."""
    if ev.get("e") != "cmd":
        return json.dumps(ev)[:200]
    r = ev.get("r", [])
    rs = ";".join("st=%s cas=%s v=%s f=%s n=%s" % (x["st"], x["cas"], x["v"][:24], x["f"], x["n"]) for x in r) or "-"
    return "%s%s k=%s v=%s f=%s ttl=%s cas=%s d=%s i=%s => %s | present=%d bytes=%s usage=%s" % (
        ev["op"], "q" if ev["q"] else "", ev["k"][:12], ev["v"][:24], ev["f"], ev["ttls"], ev["cas"], ev["d"], ev["i"], rs,
        len(ev.get("present", [])), ev.get("bytes"), ev.get("usage"))
