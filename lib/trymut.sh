#!/bin/bash
# usage: trymut.sh <mutant dir with patch.diff> <check ids...>   -- applies the patch to /repo, runs the checks, restores /repo
set -u
PATCH=$1/patch.diff; shift
cd /repo || exit 2
if ! git diff --quiet; then echo "repo dirty"; exit 2; fi
git apply "$PATCH" || { echo "patch does not apply"; exit 2; }
for id in "$@"; do
  ( cd /verif && timeout 1500 ./check $id 2>&1 | grep -E "VIOLATION|RESULT|TOOL-ERROR|KNOWN|  rule" | cut -c1-260 | head -8 )
done
git -C /repo checkout -- . ; git -C /repo status --short | head -3
