"""Concurrent histories: run the scheduler-driven harness and decide linearizability with TLC (MemcLin)."""
import json
import os
from vlib import *


def lin_check(trace_file, name=None):
    """Returns (result, rejected) where rejected is a list of dicts describing the histories TLC could not linearize."""
    res = tlc_trace(trace_file, spec="MemcLin", name=name, deque=True, timeout=3000)
    accepted = set(res.get("accepted", []))
    nonserial = set(res.get("nonserial", []))
    rejected = []
    evs = read_ndjson(trace_file)
    i = 0
    n = len(evs)
    while i < n:
        if evs[i].get("e") == "crun":
            start = i
            j = i + 1
            while j < n and evs[j].get("e") not in ("crun", "cprog"):
                j += 1
            if (start + 1) not in accepted:
                hist = evs[start:j]
                fin = [e for e in hist if e.get("e") == "final"]
                rejected.append({"line": start + 1, "crun": evs[start], "events": hist,
                                 "outcome": fin[0].get("outcome") if fin else "none",
                                 "nonserial": (start + 1) in nonserial})
            i = j
        else:
            i += 1
    res["rejected"] = rejected
    return res


def describe(rej):
    """Short identity of a rejected history: program name + the commands involved."""
    cr = rej["crun"]
    ops = sorted(set(e["op"] + (":cas" if e.get("cas", "0") != "0" else "") for e in rej["events"] if e.get("e") == "inv"))
    return {"name": cr.get("name"), "kind": cr.get("kind"), "init": cr.get("init"), "ops": ops, "outcome": rej["outcome"]}
