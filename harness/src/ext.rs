//! Configuration suite (C20): the real `memcrsd` binary started with a given command line, driven
//! black-box over its socket with the same seeded programs and probes for every configuration.
use crate::conn;
use crate::prog::{self, CasSpec, Cmd, History, Step};
use crate::proto::{hex, parse_responses, Frame};
use crate::seq::{cmd_event, frame_of, Tokens};
use crate::tcp::{self, Client};
use rand::rngs::SmallRng;
use rand::SeedableRng;
use serde_json::{json, Value};
use std::io::Write;
use std::net::Shutdown;
use std::process::{Child, Command, Stdio};
use std::time::{Duration, Instant};

pub fn spawn_server(bin: &str, args: &[String], port: u16) -> Option<Child> {
    let child = Command::new(bin).args(args).stdout(Stdio::null()).stderr(Stdio::null()).spawn().ok()?;
    let t0 = Instant::now();
    loop {
        if let Ok(c) = Client::connect(port) {
            let _ = c.s.shutdown(Shutdown::Both);
            break;
        }
        if t0.elapsed() > Duration::from_secs(8) {
            return None;
        }
        std::thread::sleep(Duration::from_millis(20));
    }
    std::thread::sleep(Duration::from_millis(100));
    Some(child)
}

fn one(c: &mut Client, f: &Frame) -> Vec<Value> {
    use std::io::Write as W;
    let mut b = f.bytes();
    b.extend_from_slice(&Frame::consistent(0x0a, &[], &[], &[], tcp::SENTINEL, 0).bytes());
    if c.s.write_all(&b).is_err() {
        return vec![];
    }
    let (resp, _how) = c.read_until(Duration::from_millis(6000), &|x| tcp::has_opaque(x, tcp::SENTINEL));
    parse_responses(&resp).into_iter().filter(|r| r["opq"].as_str() != Some(&tcp::SENTINEL.to_string())).collect()
}

fn finish_event(mut ev: Value, rs: Vec<Value>) -> Value {
    let o = ev.as_object_mut().unwrap();
    o.insert("dec".into(), json!("frame"));
    o.insert("panic".into(), json!(false));
    o.insert("r".into(), json!(rs));
    o.insert("present".into(), json!([]));
    o.insert("bytes".into(), json!(0));
    o.insert("usage".into(), json!(""));
    ev
}

/// A history over `nconn` connections used in turn, one command at a time (so that a store made on one
/// connection is read on another).  No clock control: programs must not contain ticks.
pub fn run_history_ext(h: &History, port: u16, nconn: usize, item_limit: u32, out: &mut dyn Write, hist_no: usize) -> (usize, String) {
    let mut conns: Vec<Client> = (0..nconn).filter_map(|_| Client::connect(port).ok()).collect();
    if conns.is_empty() {
        return (0, String::new());
    }
    let mut tokens = Tokens::default();
    writeln!(out, "{}", json!({"e": "reset", "h": hist_no, "name": h.name, "obs": false, "phys": false,
        "cfg": {"policy": "none", "L": 0, "limit": item_limit},
        "keys": h.keys.iter().map(|k| hex(k)).collect::<Vec<_>>()})).unwrap();
    let mut events = 1;
    // start from an empty store
    let fl = Frame::consistent(0x08, &[], &[], &[], 1, 0);
    let _ = one(&mut conns[0], &fl);
    let mut summary = String::new();
    let mut opq = 10u32;
    for (i, s) in h.steps.iter().enumerate() {
        if let Step::Cmd(c) = s {
            if c.op == "quit" {
                continue;
            }
            let cas = tokens.concretise(&c.key, &c.cas);
            let mut c2 = c.clone();
            opq += 1;
            c2.opaque = opq;
            let fr = frame_of(&c2, cas);
            let ev = cmd_event(&c2, cas, &fr);
            let n = conns.len();
            let rs = one(&mut conns[i % n], &fr);
            tokens.learn(&c.key, &rs);
            for r in &rs {
                // summary for the cross-configuration comparison: everything but the CAS value
                summary.push_str(&format!("{}:{}:{}:{}:{}|", r["op"], r["st"], r["key"].as_str().unwrap_or(""), r["v"].as_str().unwrap_or(""), r["f"].as_str().unwrap_or("")));
            }
            summary.push(';');
            writeln!(out, "{}", finish_event(ev, rs)).unwrap();
            events += 1;
        }
    }
    for c in conns.iter_mut() {
        let _ = c.s.shutdown(Shutdown::Both);
    }
    (events, summary)
}

fn getcmd(key: &[u8], opq: u32) -> Cmd {
    Cmd { op: "get".into(), q: false, gk: false, key: key.to_vec(), val: vec![], flags: 0, ttl: 0, cas: CasSpec::Lit(0), opaque: opq, delta: 0, initial: 0 }
}

/// Real-time expiry probe: set ttl=6, read after 1.0 s and after 4.0 s (must hit) and after 7.5 s (must miss).  The
/// server's clock is not known; the trace carries the bounds that follow from real elapsed time: in e seconds a 1 Hz
/// clock ticks at most floor(e) + 1 times and at least floor(e) times (see DESIGN C20).  A clock that runs fast
/// (two tick loops on one timer) fails the second read, one that runs slow or not at all fails the third.
pub fn ttl_probe(port: u16, item_limit: u32, out: &mut dyn Write, hist_no: usize) -> usize {
    let mut c = match Client::connect(port) {
        Ok(c) => c,
        Err(_) => return 0,
    };
    let key = b"ttlprobe".to_vec();
    writeln!(out, "{}", json!({"e": "reset", "h": hist_no, "name": "ttl-probe", "obs": false, "phys": false,
        "cfg": {"policy": "none", "L": 0, "limit": item_limit}, "keys": [hex(&key)]})).unwrap();
    let _ = one(&mut c, &Frame::consistent(0x08, &[], &[], &[], 1, 0));
    writeln!(out, "{}", json!({"e": "tick", "to": 100})).unwrap();
    let set = Cmd { op: "set".into(), q: false, gk: false, key: key.clone(), val: b"alive".to_vec(), flags: 5, ttl: 6, cas: CasSpec::Lit(0), opaque: 21, delta: 0, initial: 0 };
    let fr = frame_of(&set, 0);
    let t0 = Instant::now();
    let rs = one(&mut c, &fr);
    writeln!(out, "{}", finish_event(cmd_event(&set, 0, &fr), rs)).unwrap();
    // (wait until, model clock at most / at least, opaque)
    for (wait_ms, clock, opq) in [(1000u64, 102u64, 22u32), (4000, 105, 23), (7500, 107, 24)] {
        std::thread::sleep(Duration::from_millis(wait_ms).saturating_sub(t0.elapsed()));
        writeln!(out, "{}", json!({"e": "tick", "to": clock})).unwrap();
        let g = getcmd(&key, opq);
        let fr = frame_of(&g, 0);
        let rs = one(&mut c, &fr);
        writeln!(out, "{}", finish_event(cmd_event(&g, 0, &fr), rs)).unwrap();
    }
    let _ = c.s.shutdown(Shutdown::Both);
    9
}

/// Item-limit probe as a WireTcpTrace stream: a body of exactly the limit is stored, one byte more is refused.
pub fn limit_probe(port: u16, item_limit: u32, out: &mut dyn Write, id: usize) {
    let mut ex = Vec::new();
    ex.extend_from_slice(&1u32.to_be_bytes());
    ex.extend_from_slice(&0u32.to_be_bytes());
    let vlen = item_limit as usize - 8 - 2;
    let mut rng = SmallRng::seed_from_u64(7);
    let frames = vec![
        Frame::consistent(0x01, &ex, b"at", &vec![b'z'; vlen], 31, 0),
        crate::tcpgen::oversize_frame(&mut rng, 32, item_limit, item_limit + 1),
        Frame::consistent(0x00, &[], b"at", &[], 33, 0),
        Frame::consistent(0x00, &[], b"big", &[], 34, 0),
    ];
    let s = crate::wire::Stream { name: "limit-probe".into(), limit: item_limit, frames, tail: vec![] };
    let bytes = s.bytes();
    writeln!(out, "{}", crate::wire::stream_event(id, &s, bytes.len())).unwrap();
    for (u, seg) in [vec![bytes.len()], vec![24 + item_limit as usize / 2, 24 + item_limit as usize + 5]].iter().enumerate() {
        // an empty store for every universe
        if let Ok(mut c) = Client::connect(port) {
            let _ = one(&mut c, &Frame::consistent(0x08, &[], &[], &[], 1, 0));
            let _ = c.s.shutdown(Shutdown::Both);
        }
        let (resp, how, delivered, _lp) = tcp::exchange(port, &s.frames, seg, true, 30);
        let rs = parse_responses(&resp);
        let mut masked = resp.clone();
        let mut i = 0;
        while i + 24 <= masked.len() {
            let bl = u32::from_be_bytes([masked[i + 8], masked[i + 9], masked[i + 10], masked[i + 11]]) as usize;
            for b in masked[i + 16..i + 24].iter_mut() {
                *b = 0;
            }
            i += 24 + bl;
        }
        writeln!(out, "{}", json!({"e": "trun", "u": u + 1, "seg": format!("{:?}", seg), "how": how, "delivered": delivered,
            "r": rs, "resp": hex(&masked), "store": [], "nreads": 0, "maxcap": 0})).unwrap();
    }
}

/// A fixed walk through every way a record changes its size and then goes away (plain / CAS-guarded overwrite, append,
/// prepend, counter growth, replace; then delete or flush), with stores and reads of long-lived keys in between: under
/// "eviction random with a limit that is not reached" every answer is what it is without eviction (C20).
fn size_walk() -> History {
    let c = |op: &str, key: &str, val: &[u8], cas: CasSpec| Step::Cmd(Cmd { op: op.into(), q: false, gk: false, key: key.as_bytes().to_vec(), val: val.to_vec(),
        flags: 3, ttl: 0, cas, opaque: 0, delta: 5, initial: 90 });
    let mut steps = Vec::new();
    let keep: Vec<String> = (0..6).map(|i| format!("keep{}", i)).collect();
    for (r, grow) in ["set", "set", "append", "prepend", "replace", "incr"].iter().enumerate() {
        let k = format!("walk{}", r);
        steps.push(c("set", &k, if *grow == "incr" { b"99999" } else { b"x" }, CasSpec::Lit(0)));
        // grows (by a CAS-guarded command in every other round), then goes away
        let cas = if r % 2 == 1 { CasSpec::Cur } else { CasSpec::Lit(0) };
        steps.push(c(grow, &k, &vec![b'g'; 200], cas));
        steps.push(c("get", &k, b"", CasSpec::Lit(0)));
        if r == 3 {
            steps.push(Step::Cmd(Cmd { op: "flush".into(), q: false, gk: false, key: vec![], val: vec![], flags: 0, ttl: 0, cas: CasSpec::Lit(0), opaque: 0, delta: 0, initial: 0 }));
        } else {
            steps.push(c("delete", &k, b"", CasSpec::Lit(0)));
        }
        steps.push(c("set", &keep[r], format!("kept{}", r).as_bytes(), CasSpec::Lit(0)));
        steps.push(c("set", &format!("other{}", r), b"o", CasSpec::Lit(0)));
        for kk in keep.iter().take(r + 1).skip(if r > 3 { 4 } else { 0 }) {
            steps.push(c("get", kk, b"", CasSpec::Lit(0)));
        }
    }
    let mut keys: Vec<Vec<u8>> = keep.iter().map(|k| k.as_bytes().to_vec()).collect();
    for r in 0..6 {
        keys.push(format!("walk{}", r).into_bytes());
        keys.push(format!("other{}", r).into_bytes());
    }
    History { name: "size-walk".into(), cfg: prog::Cfg { policy: "none".into(), mem_limit: 0, item_limit: 1 << 20 }, keys, steps }
}

pub fn programs(seed: u64, count: usize) -> Vec<History> {
    let mut rng = SmallRng::seed_from_u64(seed);
    let mut out = vec![size_walk()];
    for i in 0..count {
        let mut h = prog::generate(&format!("cfg-{}-{}", seed, i), if i % 2 == 0 { "general" } else { "cas" }, &mut rng);
        // no clock control over a real server: drop ticks, neutralise TTLs and delayed flushes
        h.steps.retain(|s| !matches!(s, Step::Tick(_)));
        for s in h.steps.iter_mut() {
            if let Step::Cmd(c) = s {
                if c.ttl != 0xffff_ffff {
                    c.ttl = 0;
                }
            }
        }
        h.cfg.policy = "none".into();
        out.push(h);
    }
    out
}

/// The whole suite against one running server.
pub fn suite(port: u16, conn_limit: u32, item_limit: u32, seed: u64, nprog: usize, prefix: &str, ttl: bool) -> Value {
    let mut cmd_out = std::io::BufWriter::new(std::fs::File::create(format!("{}.cmd.ndjson", prefix)).unwrap());
    let mut wire_out = std::io::BufWriter::new(std::fs::File::create(format!("{}.wire.ndjson", prefix)).unwrap());
    let mut conn_out = std::io::BufWriter::new(std::fs::File::create(format!("{}.conn.ndjson", prefix)).unwrap());
    let mut count_out = std::io::BufWriter::new(std::fs::File::create(format!("{}.count.ndjson", prefix)).unwrap());
    let mut summaries = Vec::new();
    let mut events = 0;
    for (i, h) in programs(seed, nprog).iter().enumerate() {
        let mut h2 = h.clone();
        h2.cfg.item_limit = item_limit;
        let (n, s) = run_history_ext(&h2, port, 1 + i % 2, item_limit, &mut cmd_out, i + 1);
        events += n;
        summaries.push(s);
    }
    if ttl {
        events += ttl_probe(port, item_limit, &mut cmd_out, nprog + 1);
    }
    limit_probe(port, item_limit, &mut wire_out, 1);
    // connection limit: black-box scenario (no hook events from another process)
    let mut rng = SmallRng::seed_from_u64(seed + 99);
    let mut sc = conn::gen_scenario(&mut rng, conn_limit);
    sc["item_limit"] = json!(item_limit);
    // no idle way: the binary's receive timeout is 60 s
    if let Some(steps) = sc["steps"].as_array_mut() {
        for st in steps.iter_mut() {
            if st["way"] == "idle" || st["way"] == "idlemid" {
                st["way"] = json!("close");
            }
        }
    }
    conn::run_scenario_on(&sc, port, false, &mut conn_out, 1);
    // many connections at once on the same keys (they land on different listener threads / workers)
    count_hammer(port, conn_limit as usize, &mut count_out);
    count_out.flush().unwrap();
    cmd_out.flush().unwrap();
    wire_out.flush().unwrap();
    conn_out.flush().unwrap();
    json!({"events": events, "summaries": summaries})
}

// ---------------------------------------------------------------------------------------------
// counting hammer (C04's counting clauses against the real binary, C20: under every configuration)

fn incr_frame(key: &[u8], delta: u64, opq: u32) -> Frame {
    let mut ex = Vec::new();
    ex.extend_from_slice(&delta.to_be_bytes());
    ex.extend_from_slice(&0u64.to_be_bytes());
    ex.extend_from_slice(&0u32.to_be_bytes());
    Frame::consistent(0x05, &ex, key, &[], opq, 0)
}

fn store_frame(op: u8, key: &[u8], val: &[u8], opq: u32) -> Frame {
    Frame::consistent(op, &[0u8; 8], key, val, opq, 0)
}

/// sends the frames in one write and reads until the last one's answer has arrived
fn batch(c: &mut Client, frames: &[Frame]) -> Vec<Value> {
    use std::io::Write as W;
    let mut b = Vec::new();
    for f in frames {
        b.extend_from_slice(&f.bytes());
    }
    if frames.is_empty() || c.s.write_all(&b).is_err() {
        return vec![];
    }
    let last = frames[frames.len() - 1].opaque;
    let (resp, _how) = c.read_until(Duration::from_millis(10000), &|x| tcp::has_opaque(x, last));
    parse_responses(&resp)
}

/// K connections at once on the same keys: increments, appends, adds, and replace/append racing a delete.
/// Writes one `hammer` event (the counts are judged by CountTrace.tla).
pub fn count_hammer(port: u16, conns: usize, out: &mut dyn Write) {
    use std::sync::{Arc, Barrier, Mutex};
    // (never more connections than the server serves at a time: the others would wait unserved at the barriers)
    let K: usize = std::cmp::max(2, std::cmp::min(conns, 8));
    const M: usize = 160; // increments per connection
    const B: usize = 16; // pipelined per batch
    const MA: usize = 60; // appends per connection
    const R: usize = 40; // add rounds
    const RD: usize = 30; // delete rounds
    let mut c0 = match Client::connect(port) {
        Ok(c) => c,
        Err(_) => {
            writeln!(out, "{}", json!({"e": "hammer", "alive": false})).unwrap();
            return;
        }
    };
    let _ = one(&mut c0, &Frame::consistent(0x08, &[], &[], &[], 1, 0));
    let _ = one(&mut c0, &store_frame(0x01, b"hctr", b"100", 2));
    let _ = one(&mut c0, &store_frame(0x01, b"happ", b"", 3));
    for r in 0..RD {
        let _ = one(&mut c0, &store_frame(0x01, format!("hdel{}", r).as_bytes(), b"x", 4));
    }
    // the set-up connection must not occupy one of the slots the hammering connections need
    let _ = c0.s.shutdown(Shutdown::Both);
    drop(c0);
    std::thread::sleep(Duration::from_millis(100));
    let barrier = Arc::new(Barrier::new(K));
    let results: Arc<Mutex<Vec<Value>>> = Arc::new(Mutex::new(vec![Value::Null; K]));
    let mut hs = Vec::new();
    for w in 0..K {
        let barrier = barrier.clone();
        let results = results.clone();
        hs.push(std::thread::spawn(move || {
            let mut res = json!({"connected": false});
            // (the barriers are passed even by a thread whose connection failed, so that nobody waits forever)
            let mut c = Client::connect(port).ok();
            res["connected"] = json!(c.is_some());
            let mut opq = 1000u32;
            // 1. increments
            barrier.wait();
            let mut vals: Vec<u64> = Vec::new();
            let mut bad = 0usize;
            for _ in 0..(M / B) {
                let frames: Vec<Frame> = (0..B).map(|_| { opq += 1; incr_frame(b"hctr", 3, opq) }).collect();
                let rs = c.as_mut().map(|c| batch(c, &frames)).unwrap_or_default();
                if rs.len() != B {
                    bad += B - std::cmp::min(B, rs.len());
                }
                for r in rs {
                    if r["st"].as_u64() == Some(0) && r["magic"].as_u64() == Some(129) {
                        let v = crate::proto::unhex(r["v"].as_str().unwrap_or(""));
                        if v.len() == 8 {
                            vals.push(u64::from_be_bytes([v[0], v[1], v[2], v[3], v[4], v[5], v[6], v[7]]));
                        } else {
                            bad += 1;
                        }
                    } else {
                        bad += 1;
                    }
                }
            }
            res["incr"] = json!({"vals": vals.iter().map(|v| std::cmp::min(*v, 1 << 30)).collect::<Vec<u64>>(), "bad": bad});
            // 2. appends of distinct fixed-width tokens
            barrier.wait();
            let mut toks: Vec<String> = Vec::new();
            let mut bad = 0usize;
            for i in 0..MA {
                let t = format!("{:02}{:04}", w, i);
                opq += 1;
                let rs = c.as_mut().map(|c| batch(c, &[store_frame_noextras(0x0e, b"happ", t.as_bytes(), opq)])).unwrap_or_default();
                if rs.len() == 1 && rs[0]["st"].as_u64() == Some(0) {
                    toks.push(t);
                } else {
                    bad += 1;
                }
            }
            res["append"] = json!({"tokens": toks, "bad": bad});
            // 3. adds of an absent key, all at once
            let mut adds: Vec<u64> = Vec::new();
            for r in 0..R {
                barrier.wait();
                opq += 1;
                let rs = c.as_mut().map(|c| batch(c, &[store_frame(0x02, format!("hadd{}", r).as_bytes(), format!("c{}", w).as_bytes(), opq)])).unwrap_or_default();
                adds.push(if rs.len() == 1 { rs[0]["st"].as_u64().unwrap_or(999) } else { 999 });
            }
            res["add"] = json!(adds);
            // 4. a delete against replace / append
            let mut dels: Vec<u64> = Vec::new();
            for r in 0..RD {
                barrier.wait();
                opq += 1;
                let key = format!("hdel{}", r);
                let f = if w == 0 { Frame::consistent(0x04, &[], key.as_bytes(), &[], opq, 0) }
                    else if w % 2 == 1 { store_frame(0x03, key.as_bytes(), format!("r{}", w).as_bytes(), opq) }
                    else { store_frame_noextras(0x0e, key.as_bytes(), b"+", opq) };
                let rs = c.as_mut().map(|c| batch(c, &[f])).unwrap_or_default();
                dels.push(if rs.len() == 1 { rs[0]["st"].as_u64().unwrap_or(999) } else { 999 });
            }
            res["del"] = json!(dels);
            if let Some(c) = c.as_mut() {
                let _ = c.s.shutdown(Shutdown::Both);
            }
            results.lock().unwrap()[w] = res;
        }));
    }
    for h in hs {
        let _ = h.join();
    }
    // final observations on a fresh connection
    let fin = |c: &mut Client, key: &[u8]| -> Value {
        let rs = one(c, &Frame::consistent(0x00, &[], key, &[], 77, 0));
        if rs.len() == 1 { json!({"st": rs[0]["st"], "v": String::from_utf8_lossy(&crate::proto::unhex(rs[0]["v"].as_str().unwrap_or(""))).to_string()}) } else { json!({"st": 999, "v": ""}) }
    };
    let alive = Client::connect(port).is_ok();
    let mut c1 = match Client::connect(port) {
        Ok(c) => c,
        Err(_) => {
            writeln!(out, "{}", json!({"e": "hammer", "alive": false})).unwrap();
            return;
        }
    };
    let ctr = fin(&mut c1, b"hctr");
    let app = fin(&mut c1, b"happ");
    let add_fin: Vec<Value> = (0..R).map(|r| fin(&mut c1, format!("hadd{}", r).as_bytes())).collect();
    let del_fin: Vec<Value> = (0..RD).map(|r| fin(&mut c1, format!("hdel{}", r).as_bytes())["st"].clone()).collect();
    let _ = c1.s.shutdown(Shutdown::Both);
    let per = results.lock().unwrap().clone();
    writeln!(out, "{}", json!({"e": "hammer", "alive": alive, "conns": K, "incr_per": M, "d": 3, "init": 100, "append_per": MA, "rounds": R, "del_rounds": RD,
        "per": per, "ctr": ctr, "app": app, "add_fin": add_fin, "del_fin": del_fin})).unwrap();
}

fn store_frame_noextras(op: u8, key: &[u8], val: &[u8], opq: u32) -> Frame {
    Frame::consistent(op, &[], key, val, opq, 0)
}


/// Connection-limit scenarios only (C17 against the real binary): `n` scenarios, black-box.
pub fn conn_scenarios(port: u16, conn_limit: u32, item_limit: u32, seed: u64, n: usize, path: &str) -> usize {
    let mut conn_out = std::io::BufWriter::new(std::fs::File::create(path).unwrap());
    let mut rng = SmallRng::seed_from_u64(seed + 99);
    for i in 0..n {
        let mut sc = conn::gen_scenario(&mut rng, conn_limit);
        sc["item_limit"] = json!(item_limit);
        // no idle way: the binary's receive timeout is 60 s
        if let Some(steps) = sc["steps"].as_array_mut() {
            for st in steps.iter_mut() {
                if st["way"] == "idle" || st["way"] == "idlemid" {
                    st["way"] = json!("close");
                }
            }
        }
        conn::run_scenario_on(&sc, port, false, &mut conn_out, i + 1);
    }
    conn_out.flush().unwrap();
    n
}


/// Memory-limit probe against the binary started with `--eviction-policy random --memory-limit <limit>` (C14, C15: the
/// configured limit is the one the eviction works with): far more than the limit is stored in records of up to `maxrec`
/// bytes, then everything is read back; the bytes still stored are reported (judged by CountTrace).
pub fn mem_probe(port: u16, limit: u64, path: &str) -> usize {
    let mut out = std::io::BufWriter::new(std::fs::File::create(path).unwrap());
    let mut c = match Client::connect(port) {
        Ok(c) => c,
        Err(_) => {
            writeln!(out, "{}", json!({"e": "memprobe", "alive": false})).unwrap();
            return 0;
        }
    };
    let _ = one(&mut c, &Frame::consistent(0x08, &[], &[], &[], 1, 0));
    let maxrec: u64 = 24 + 1000;
    let n = (4 * limit / 700) as usize + 20;
    let mut sizes: Vec<usize> = Vec::new();
    let mut bad = 0usize;
    for i in 0..n {
        let len = 400 + (i * 37) % 600;
        sizes.push(len);
        let rs = one(&mut c, &store_frame(0x01, format!("m{}", i).as_bytes(), &vec![b'a' + (i % 26) as u8; len], 100 + i as u32));
        if rs.len() != 1 || rs[0]["st"].as_u64() != Some(0) {
            bad += 1;
        }
    }
    let mut stored: u64 = 0;
    let mut hits = 0usize;
    for i in 0..n {
        let rs = one(&mut c, &Frame::consistent(0x00, &[], format!("m{}", i).as_bytes(), &[], 5000 + i as u32, 0));
        if rs.len() == 1 && rs[0]["st"].as_u64() == Some(0) {
            let v = rs[0]["v"].as_str().unwrap_or("");
            hits += 1;
            stored += 24 + (v.len() / 2) as u64;
            if v.len() / 2 != sizes[i] {
                bad += 1;
            }
        }
    }
    let _ = c.s.shutdown(Shutdown::Both);
    writeln!(out, "{}", json!({"e": "memprobe", "alive": true, "limit": limit, "maxrec": maxrec, "n": n, "hits": hits, "stored": stored, "bad": bad,
        "offered": sizes.iter().map(|x| 24 + *x as u64).sum::<u64>()})).unwrap();
    out.flush().unwrap();
    1
}
