//! Programs: histories of abstract commands with symbolic CAS arguments,
//! their JSON form (also produced by TLC) and a seeded random generator.
use crate::proto::{hex, unhex};
use rand::rngs::SmallRng;
use rand::seq::SliceRandom;
use rand::Rng;
use serde_json::{json, Value};

#[derive(Clone, Debug, PartialEq)]
pub enum CasSpec {
    Lit(u64),
    /// the token most recently seen for the key
    Cur,
    /// that token + 1 (wrapping)
    CurPlus1,
    /// the i-th token seen for the key counted from the oldest (modulo the number seen)
    Stale(usize),
}

#[derive(Clone, Debug)]
pub struct Cmd {
    pub op: String,
    pub q: bool,
    pub gk: bool,
    pub key: Vec<u8>,
    pub val: Vec<u8>,
    pub flags: u32,
    pub ttl: u32,
    pub cas: CasSpec,
    pub opaque: u32,
    pub delta: u64,
    pub initial: u64,
}

#[derive(Clone, Debug)]
pub enum Step {
    Tick(u64),
    Cmd(Cmd),
}

#[derive(Clone, Debug)]
pub struct Cfg {
    pub policy: String, // "none" | "random"
    pub mem_limit: u64,
    pub item_limit: u32,
}

#[derive(Clone, Debug)]
pub struct History {
    pub name: String,
    pub cfg: Cfg,
    pub keys: Vec<Vec<u8>>,
    pub steps: Vec<Step>,
}

fn u64_of(v: &Value) -> u64 {
    match v {
        Value::String(s) if s == "max" => u64::MAX,
        Value::String(s) => s.parse().unwrap_or(0),
        Value::Number(n) => n.as_u64().unwrap_or(0),
        _ => 0,
    }
}

pub fn cas_from_json(v: &Value) -> CasSpec {
    match v {
        Value::String(s) => match s.as_str() {
            "cur" => CasSpec::Cur,
            "cur+1" => CasSpec::CurPlus1,
            "max" => CasSpec::Lit(u64::MAX),
            x if x.starts_with("stale") => CasSpec::Stale(x[5..].parse().unwrap_or(0)),
            x => CasSpec::Lit(x.parse().unwrap_or(0)),
        },
        Value::Number(n) => CasSpec::Lit(n.as_u64().unwrap_or(0)),
        _ => CasSpec::Lit(0),
    }
}

pub fn cas_to_json(c: &CasSpec) -> Value {
    match c {
        CasSpec::Lit(x) => json!(x.to_string()),
        CasSpec::Cur => json!("cur"),
        CasSpec::CurPlus1 => json!("cur+1"),
        CasSpec::Stale(i) => json!(format!("stale{}", i)),
    }
}

pub fn cmd_from_json(v: &Value) -> Cmd {
    Cmd {
        op: v["op"].as_str().unwrap_or("noop").to_string(),
        q: v["q"].as_bool().unwrap_or(false),
        gk: v["gk"].as_bool().unwrap_or(false),
        key: unhex(v["k"].as_str().unwrap_or("")),
        val: unhex(v["v"].as_str().unwrap_or("")),
        flags: u64_of(&v["f"]) as u32,
        ttl: u64_of(&v["ttl"]) as u32,
        cas: cas_from_json(&v["cas"]),
        opaque: u64_of(&v["opq"]) as u32,
        delta: u64_of(&v["d"]),
        initial: u64_of(&v["i"]),
    }
}

pub fn cmd_to_json(c: &Cmd) -> Value {
    json!({"t": "cmd", "op": c.op, "q": c.q, "gk": c.gk, "k": hex(&c.key), "v": hex(&c.val),
        "f": c.flags.to_string(), "ttl": c.ttl.to_string(), "cas": cas_to_json(&c.cas),
        "opq": c.opaque.to_string(), "d": c.delta.to_string(), "i": c.initial.to_string()})
}

pub fn history_from_json(v: &Value) -> History {
    let cfg = &v["cfg"];
    let mut steps = Vec::new();
    for s in v["steps"].as_array().cloned().unwrap_or_default() {
        if s["t"].as_str() == Some("tick") {
            steps.push(Step::Tick(u64_of(&s["to"])));
        } else {
            steps.push(Step::Cmd(cmd_from_json(&s)));
        }
    }
    let mut keys: Vec<Vec<u8>> = v["keys"]
        .as_array()
        .cloned()
        .unwrap_or_default()
        .iter()
        .map(|k| unhex(k.as_str().unwrap_or("")))
        .collect();
    for s in &steps {
        if let Step::Cmd(c) = s {
            if c.op != "flush" && !keys.contains(&c.key) {
                keys.push(c.key.clone());
            }
        }
    }
    History {
        name: v["name"].as_str().unwrap_or("h").to_string(),
        cfg: Cfg {
            policy: cfg["policy"].as_str().unwrap_or("none").to_string(),
            mem_limit: u64_of(&cfg["L"]),
            item_limit: if cfg["limit"].is_null() { 1024 * 1024 } else { u64_of(&cfg["limit"]) as u32 },
        },
        keys,
        steps,
    }
}

pub fn history_to_json(h: &History) -> Value {
    let steps: Vec<Value> = h
        .steps
        .iter()
        .map(|s| match s {
            Step::Tick(t) => json!({"t": "tick", "to": t}),
            Step::Cmd(c) => cmd_to_json(c),
        })
        .collect();
    json!({"name": h.name, "cfg": {"policy": h.cfg.policy, "L": h.cfg.mem_limit.to_string(), "limit": h.cfg.item_limit},
        "keys": h.keys.iter().map(|k| hex(k)).collect::<Vec<_>>(), "steps": steps})
}

// ---------------------------------------------------------------------------------------------
// random generator

/// Knobs of the generator; a profile is a preset of these.
#[derive(Clone, Debug)]
pub struct GenParams {
    pub nkeys: usize,
    pub len: usize,
    pub ops: Vec<(&'static str, u32)>,
    pub quiet_pct: u32,
    pub cas_pct: u32,  // share of mutations carrying a non-zero CAS
    pub name_is_quietpair: bool,
    pub tick_pct: u32, // share of steps that advance the clock
    pub ttls: Vec<u32>,
    pub max_val: usize,
    pub numeric_pct: u32, // share of stored values that are counters
    pub policy: String,
    pub mem_limit: u64,
    pub item_limit: u32,
    pub oversize_pct: u32,
    pub get_all_pct: u32, // after a mutation, get every key with this probability
}

pub fn profile(name: &str, rng: &mut SmallRng) -> GenParams {
    let all_ops: Vec<(&'static str, u32)> = vec![
        ("get", 20), ("set", 14), ("add", 6), ("replace", 6), ("append", 6), ("prepend", 6),
        ("incr", 6), ("decr", 5), ("delete", 6), ("flush", 1), ("noop", 1), ("version", 1), ("stat", 1),
    ];
    let mut p = GenParams {
        nkeys: rng.gen_range(2..=5),
        len: rng.gen_range(30..=90),
        ops: all_ops.clone(),
        quiet_pct: 20,
        cas_pct: 25,
        name_is_quietpair: false,
        tick_pct: 12,
        ttls: vec![0, 0, 0, 1, 2, 3, 5, 10, 60],
        max_val: 40,
        numeric_pct: 25,
        policy: "none".into(),
        mem_limit: 0,
        item_limit: 256,
        oversize_pct: 3,
        get_all_pct: 15,
    };
    match name {
        "general" => {
            if rng.gen_bool(0.3) {
                p.policy = "random".into();
                p.mem_limit = 1 << 30;
            }
        }
        "cas" => {
            p.ops = vec![("get", 18), ("set", 18), ("add", 5), ("replace", 8), ("append", 6), ("prepend", 5),
                ("incr", 7), ("decr", 4), ("delete", 8), ("flush", 1)];
            p.cas_pct = 60;
            p.nkeys = rng.gen_range(1..=3);
            p.tick_pct = 6;
            p.ttls = vec![0, 0, 0, 0, 2, 5];
            p.quiet_pct = 10;
            p.oversize_pct = 0;
        }
        "expiry" => {
            p.ops = vec![("get", 22), ("set", 16), ("add", 8), ("replace", 6), ("append", 6), ("prepend", 5),
                ("incr", 7), ("decr", 4), ("delete", 3), ("flush", 5)];
            p.tick_pct = 35;
            p.ttls = vec![0, 1, 1, 2, 2, 3, 4, 5, 7, 2592000];
            p.cas_pct = 8;
            p.oversize_pct = 0;
        }
        "counter" => {
            p.ops = vec![("get", 20), ("set", 15), ("incr", 30), ("decr", 25), ("delete", 4), ("append", 4), ("prepend", 5)];
            p.numeric_pct = 75;
            p.nkeys = rng.gen_range(1..=3);
            p.oversize_pct = 0;
        }
        "cond" => {
            p.ops = vec![("get", 20), ("set", 10), ("add", 16), ("replace", 14), ("append", 14), ("prepend", 14),
                ("delete", 8), ("flush", 2), ("incr", 2)];
            p.item_limit = *[64u32, 128, 256].choose(rng).unwrap();
            p.max_val = 60;
            p.oversize_pct = 5;
        }
        "delflush" => {
            p.ops = vec![("get", 24), ("set", 22), ("add", 6), ("delete", 22), ("flush", 12), ("replace", 4), ("incr", 4), ("append", 4)];
            p.nkeys = rng.gen_range(3..=6);
            p.tick_pct = 25;
            p.cas_pct = 35;
            p.oversize_pct = 0;
        }
        "quiet" => {
            p.quiet_pct = 55;
            p.ops.push(("get", 10));
            p.oversize_pct = 8;
            p.item_limit = *[128u32, 256].choose(rng).unwrap();
        }
        "quietpair" => {
            // programs that are run twice, the second time with every quiet bit flipped: no symbolic CAS
            // arguments (a quiet success reveals no token), bodies around the item limit
            p.quiet_pct = 50;
            p.cas_pct = 0;
            p.name_is_quietpair = true;
            p.oversize_pct = 12;
            p.item_limit = *[128u32, 256].choose(rng).unwrap();
            p.nkeys = rng.gen_range(2..=3);
            p.len = rng.gen_range(25..=60);
        }
        "evict_tight" => {
            p.policy = "random".into();
            p.max_val = 60;
            // limits from "smaller than one record" up to a few records
            p.mem_limit = *[0u64, 10, 30, 60, 100, 150, 250, 400].choose(rng).unwrap();
            p.nkeys = rng.gen_range(3..=7);
            p.len = rng.gen_range(40..=120);
            p.oversize_pct = 0;
        }
        "evict_near" => {
            // the live set always fits under the limit but comes close to it: overwrites, appends and rejected
            // stores of large items must not push anything out
            p.policy = "random".into();
            p.nkeys = 3;
            p.max_val = 100;
            p.numeric_pct = 5;
            p.oversize_pct = 0;
            p.item_limit = 512;
            // 3 keys x (24 + 100 + room for appends of <= 12 bytes, at most ~6 per key) < 3 x 200
            p.mem_limit = 450;
            p.len = rng.gen_range(40..=70);
            p.ops = vec![("get", 18), ("set", 30), ("add", 6), ("replace", 10), ("append", 3), ("prepend", 2), ("delete", 6), ("incr", 3)];
            p.cas_pct = 30;
        }
        "evict_roomy" => {
            p.policy = "random".into();
            p.max_val = 30;
            p.nkeys = rng.gen_range(2..=4);
            // live set <= nkeys * (24 + 4*max_val) ; limit far above it
            p.mem_limit = 20_000;
            p.len = rng.gen_range(150..=400);
            p.item_limit = 128;
            p.oversize_pct = 1;
        }
        "huge" => {
            // the default 1 MiB item limit with values around the 16-bit boundaries of the length fields
            p.item_limit = 1 << 20;
            p.max_val = 70000;
            p.nkeys = 2;
            p.len = rng.gen_range(5..=9);
            p.oversize_pct = 0;
            p.numeric_pct = 0;
            p.tick_pct = 0;
            p.cas_pct = 10;
            p.get_all_pct = 60;
            p.ops = vec![("get", 30), ("set", 35), ("add", 5), ("replace", 8), ("append", 10), ("prepend", 6), ("delete", 3)];
        }
        "big" => {
            p.item_limit = *[1024u32, 4096].choose(rng).unwrap();
            p.max_val = p.item_limit as usize;
            p.nkeys = rng.gen_range(2..=4);
            p.len = rng.gen_range(20..=40);
            p.oversize_pct = 10;
            p.ops = vec![("get", 25), ("set", 25), ("add", 8), ("replace", 8), ("append", 8), ("prepend", 8), ("delete", 6)];
        }
        _ => panic!("unknown profile {}", name),
    }
    // the eviction policy must not matter while its limit is not reached (C01, C20): a third of the
    // histories of every other profile run behind RandomPolicy with a limit far away
    if !name.starts_with("evict") && name != "huge" && name != "general" && rng.gen_bool(0.33) {
        p.policy = "random".into();
        p.mem_limit = 1 << 30;
    }
    p
}

fn gen_key(rng: &mut SmallRng, i: usize) -> Vec<u8> {
    match i {
        0 => vec![b'k'],
        1 => vec![b'k', b'1'],
        2 => vec![b'k', b'2'], // differs from key 1 in the last byte, key 0 is a prefix of both
        3 => {
            let mut k = vec![0u8; 250];
            for b in k.iter_mut() {
                *b = rng.gen();
            }
            k
        }
        4 => vec![0u8],
        _ => {
            let n = rng.gen_range(1..=12);
            (0..n).map(|_| rng.gen()).collect()
        }
    }
}

fn gen_numeric(rng: &mut SmallRng) -> Vec<u8> {
    let specials: [u64; 12] = [0, 1, 9, 10, 99, (1u64 << 32) - 1, 1u64 << 32, (1u64 << 63) - 1, 1u64 << 63,
        u64::MAX - 1, u64::MAX, 12345678901234567890];
    match rng.gen_range(0..24) {
        // decimal text longer than 20 bytes that is still a u64: leading zeros (and a sign)
        20 | 21 => {
            let v = specials[rng.gen_range(0..specials.len())].to_string();
            let width = rng.gen_range(21..=26);
            let mut s = String::new();
            while s.len() + v.len() < width {
                s.push('0');
            }
            s.push_str(&v);
            s.into_bytes()
        }
        22 => format!("+{}", specials[rng.gen_range(0..specials.len())]).into_bytes(),
        23 => format!("{:020}", rng.gen_range(0..1000u32)).into_bytes(),
        0..=9 => specials[rng.gen_range(0..specials.len())].to_string().into_bytes(),
        10..=13 => rng.gen::<u64>().to_string().into_bytes(),
        14 => format!("00{}", rng.gen_range(0..1000u32)).into_bytes(),
        15 => format!("+{}", rng.gen_range(0..1000u32)).into_bytes(),
        16 => format!(" {}", rng.gen_range(0..1000u32)).into_bytes(),
        17 => b"18446744073709551616".to_vec(),
        18 => format!("{}9", u64::MAX).into_bytes(),
        _ => format!("-{}", rng.gen_range(0..1000u32)).into_bytes(),
    }
}

fn gen_val(rng: &mut SmallRng, p: &GenParams) -> Vec<u8> {
    if rng.gen_range(0..100) < p.numeric_pct {
        return gen_numeric(rng);
    }
    if p.max_val >= 65536 {
        // lengths around 2^16 (minus the 4 extras bytes and short keys of a hit) and 2^17
        let n = *[65526usize, 65529, 65530, 65531, 65532, 65533, 65535, 65536, 65537, 70000, 131066, 131072, 100, 0].choose(rng).unwrap();
        let b: u8 = rng.gen();
        return (0..n).map(|i| b.wrapping_add((i % 251) as u8)).collect();
    }
    let n = match rng.gen_range(0..10) {
        0 => 0,
        1 => p.max_val,
        2 => 1,
        _ => rng.gen_range(0..=p.max_val),
    };
    match rng.gen_range(0..4) {
        0 => (0..n).map(|_| rng.gen()).collect(),
        1 => vec![0xff; n],
        2 => vec![0x00; n],
        _ => (0..n).map(|_| rng.gen_range(b'a'..=b'z')).collect(),
    }
}

fn gen_flags(rng: &mut SmallRng) -> u32 {
    match rng.gen_range(0..8) {
        0 => 0,
        1 => u32::MAX,
        2 => 0xdeadbeef,
        3 => 1,
        _ => rng.gen(),
    }
}

fn gen_u64(rng: &mut SmallRng) -> u64 {
    match rng.gen_range(0..12) {
        0 => 0,
        1 | 2 | 3 => 1,
        4 => u64::MAX,
        5 => u64::MAX - 1,
        6 => 1u64 << 63,
        7 => rng.gen(),
        _ => rng.gen_range(0..100),
    }
}

pub fn generate(name: &str, profile_name: &str, rng: &mut SmallRng) -> History {
    let p = profile(profile_name, rng);
    let keys: Vec<Vec<u8>> = (0..p.nkeys).map(|i| gen_key(rng, i)).collect();
    let total: u32 = p.ops.iter().map(|x| x.1).sum();
    let mut steps = Vec::new();
    let mut now: u64 = if rng.gen_bool(0.5) { 0 } else { rng.gen_range(1..1000) };
    if now > 0 {
        steps.push(Step::Tick(now));
    }
    let mut opaque: u32 = rng.gen();
    let mut n = 0;
    while n < p.len {
        if rng.gen_range(0..100) < p.tick_pct {
            now += match rng.gen_range(0..10) {
                0..=4 => 1,
                5 | 6 => 2,
                7 => 3,
                8 => rng.gen_range(1..10),
                _ => rng.gen_range(1..3_000_000),
            };
            steps.push(Step::Tick(now));
            continue;
        }
        let mut pick = rng.gen_range(0..total);
        let mut op = "get";
        for (o, w) in &p.ops {
            if pick < *w {
                op = o;
                break;
            }
            pick -= w;
        }
        let key = keys[rng.gen_range(0..keys.len())].clone();
        let mutation = !matches!(op, "get" | "noop" | "version" | "stat" | "flush");
        let cas = if mutation && rng.gen_range(0..100) < p.cas_pct {
            match rng.gen_range(0..10) {
                0..=3 => CasSpec::Cur,
                4 | 5 => CasSpec::Stale(rng.gen_range(0..8)),
                6 => CasSpec::CurPlus1,
                7 => CasSpec::Lit(u64::MAX),
                8 => CasSpec::Lit(rng.gen_range(1..20)),
                _ => CasSpec::Lit(rng.gen()),
            }
        } else if mutation && p.name_is_quietpair && rng.gen_range(0..100) < 30 {
            // literal CAS values in the range the counter will reach (the same in both runs of a pair: the CAS counter does
            // not depend on which responses are sent, so the outcomes must not either)
            CasSpec::Lit(rng.gen_range(1..(steps.len() as u64 + 4)))
        } else {
            CasSpec::Lit(0)
        };
        opaque = opaque.wrapping_add(rng.gen_range(1..1000));
        let mut val = match op {
            "set" | "add" | "replace" => gen_val(rng, &p),
            "append" | "prepend" => {
                if p.numeric_pct >= 50 && rng.gen_bool(0.4) {
                    // digits glued to a counter: zeros in front keep it a number, however long the text gets
                    if op == "prepend" { vec![b'0'; rng.gen_range(1..=22)] } else { vec![b'0' + rng.gen_range(0..10u8)] }
                } else {
                    let mut q = p.clone();
                    q.max_val = std::cmp::min(p.max_val, 12);
                    q.numeric_pct = 10;
                    gen_val(rng, &q)
                }
            }
            _ => Vec::new(),
        };
        if matches!(op, "set" | "add" | "replace" | "append" | "prepend") && rng.gen_range(0..100) < p.oversize_pct {
            // body = extras + key + value around the limit: one below, exactly, just above, far above
            let extras = if matches!(op, "append" | "prepend") { 0 } else { 8 };
            let delta = *[-1i64, 0, 1, 2, 9, 100].choose(rng).unwrap();
            let vlen = p.item_limit as i64 - extras - key.len() as i64 + delta;
            if vlen >= 0 {
                val = vec![b'x'; vlen as usize];
            }
        }
        let ttl = match op {
            "flush" => *[0u32, 0, 1, 2, 3, 5].choose(rng).unwrap(),
            "incr" | "decr" => match rng.gen_range(0..10) {
                0 | 1 => 0xffff_ffff,
                2..=5 => 0,
                _ => *p.ttls.choose(rng).unwrap(),
            },
            _ => *p.ttls.choose(rng).unwrap(),
        };
        let c = Cmd {
            op: op.to_string(),
            q: rng.gen_range(0..100) < p.quiet_pct,
            gk: rng.gen_bool(0.3),
            key: key.clone(),
            val,
            flags: gen_flags(rng),
            ttl,
            cas,
            opaque,
            delta: gen_u64(rng),
            initial: gen_u64(rng),
        };
        steps.push(Step::Cmd(c));
        n += 1;
        if mutation && rng.gen_range(0..100) < p.get_all_pct {
            for k in &keys {
                opaque = opaque.wrapping_add(1);
                steps.push(Step::Cmd(Cmd {
                    op: "get".into(), q: false, gk: rng.gen_bool(0.2), key: k.clone(), val: vec![], flags: 0, ttl: 0,
                    cas: CasSpec::Lit(0), opaque, delta: 0, initial: 0,
                }));
            }
        }
    }
    // final read of every key
    for k in &keys {
        opaque = opaque.wrapping_add(1);
        steps.push(Step::Cmd(Cmd {
            op: "get".into(), q: false, gk: false, key: k.clone(), val: vec![], flags: 0, ttl: 0,
            cas: CasSpec::Lit(0), opaque, delta: 0, initial: 0,
        }));
    }
    History {
        name: name.to_string(),
        cfg: Cfg { policy: p.policy.clone(), mem_limit: p.mem_limit, item_limit: p.item_limit },
        keys,
        steps,
    }
}
