------------------------------- MODULE MemcLin -------------------------------
(***************************************************************************)
(* Linearizability of recorded CONCURRENT histories against the contract   *)
(* (C03 C04, and the quiescent-state bound of C14, completion of C16).     *)
(* A history is: sequential set-up commands, then invocation / return      *)
(* events of several clients in the real order in which they happened      *)
(* (one global sequence, taken under the deterministic scheduler), then a  *)
(* final sequential read of every key.  The history is accepted iff the    *)
(* commands can be given linearization points - a silent step `Lin(c)`     *)
(* between the invocation and the return of client c's command, at which   *)
(* the contract (MemcContract!JudgeAll) must accept the command with the   *)
(* response it really got - such that the final reads are accepted too.    *)
(* TLC searches all placements of the silent steps.  Every history of the  *)
(* file is its own initial state, so they are decided independently; the   *)
(* accepted ones are collected in a TLC register.                          *)
(***************************************************************************)
EXTENDS MemcContract, Json, IOUtils

Rec == ndJsonDeserialize(IOEnv.TRACE)
N   == Len(Rec)
Starts == {i \in 1..N : Rec[i].e = "crun"}

ASSUME TLCSet(1, {}) /\ TLCSet(2, {}) /\ TLCSet(3, {})

VARIABLES l, h, he, cs, pend, lind
vars == <<l, h, he, cs, pend, lind>>

Init == \E s \in Starts :
          /\ h = s /\ l = s + 1
          \* one past the last line of this history
          /\ he = CHOOSE i \in (s + 1)..(N + 1) : /\ (i = N + 1 \/ Rec[i].e \in {"crun", "cprog"})
                                                 /\ \A j \in (s + 1)..(i - 1) : Rec[j].e \notin {"crun", "cprog"}
          /\ cs = {InitState(SeqRange(Rec[s].keys), Rec[s].policy, Rec[s].L, 1048576, FALSE)}
          /\ pend = <<>> /\ lind = {}

InHist == l <= N /\ Rec[l].e \notin {"crun", "cprog"}
E == Rec[l]

(* the response of client c's pending command: its next `ret` line in this history; 0 if the run was cut  *)
(* short (hang, deadlock) before the command returned                                                    *)
RetOf(c) == LET S == {i \in l..(he - 1) : Rec[i].e = "ret" /\ Rec[i].c = c} IN
            IF S = {} THEN 0 ELSE CHOOSE i \in S : \A j \in S : i <= j
Merged(inv, ret) == [inv EXCEPT !.e = "cmd"] @@ [r |-> ret.r, panic |-> ret.panic, dec |-> "frame",
                                                 present |-> <<>>, bytes |-> 0, usage |-> ""]

(* with the eviction policy on, the contract has no notion of an eviction racing a command: such histories *)
(* are only required to complete (C16) and to respect the memory bound at quiescence (C14)               *)
Relaxed == Rec[h].policy = "random"
Setup == /\ InHist /\ E.e = "cmd"
         /\ LET j == JudgeAll(cs, E) IN (j.tags = {} \/ Relaxed) /\ cs' = j.sts
         /\ l' = l + 1 /\ UNCHANGED <<h, he, pend, lind>>
Tick1 == /\ InHist /\ E.e = "tick"
         /\ cs' = TickAll(cs, E.to) /\ l' = l + 1 /\ UNCHANGED <<h, he, pend, lind>>
Invoke == /\ InHist /\ E.e = "inv"
          /\ pend' = (E.c :> [inv |-> E, ret |-> RetOf(E.c)]) @@ pend
          /\ l' = l + 1 /\ UNCHANGED <<h, he, cs, lind>>
Lin(c) == /\ InHist /\ c \in DOMAIN pend /\ c \notin lind /\ pend[c].ret > 0
          /\ LET j == JudgeAll(cs, Merged(pend[c].inv, Rec[pend[c].ret])) IN j.tags = {} /\ cs' = j.sts
          /\ lind' = lind \cup {c} /\ UNCHANGED <<l, h, he, pend>>
Return == /\ InHist /\ E.e = "ret" /\ (E.c \in lind \/ Relaxed)
          /\ pend' = [d \in DOMAIN pend \ {E.c} |-> pend[d]]
          /\ lind' = lind \ {E.c}
          /\ l' = l + 1 /\ UNCHANGED <<h, he, cs>>

RetOfClient(c, hh) == LET i == CHOOSE i \in hh..N : Rec[i].e = "ret" /\ Rec[i].c = c IN Rec[i]
Conforms(x, fin, hh) ==
    /\ Len(fin.sched) = Len(x.order)
    /\ \A i \in 1..Len(fin.sched) : fin.sched[i].c = x.order[i] /\ fin.sched[i].site = x.sites[i]
    /\ \A c \in 1..Len(x.resp) : LET r == RetOfClient(c, hh).r IN
                                   Len(r) = Len(x.resp[c]) /\ \A i \in 1..Len(r) : r[i].st = x.resp[c][i]
RECURSIVE ReadsOK(_, _, _)
ReadsOK(cands, gets, i) == IF i > Len(gets) THEN TRUE
                           ELSE LET j == JudgeAll(cands, gets[i]) IN j.tags = {} /\ ReadsOK(j.sts, gets, i + 1)
(* C14 at quiescence: stored bytes within the limit plus one record per store that was in flight *)
BoundOK(e) == Rec[h].policy # "random" \/ e.bytes <= Rec[h].L + Rec[h].slack
(* ... and, with nothing in flight, the accounted bytes are exactly the stored bytes (C15) - otherwise the  *)
(* limit enforced from now on is off by the difference (C14)                                              *)
\* (the counter lives in MemoryStore whatever the policy: checked for every program)
AcctOK(e) == "usage" \notin DOMAIN e \/ e.usage = "" \/ e.usage = NatToStr(e.bytes)
(***************************************************************************)
(* Equivalence to a sequential execution OF THE IMPLEMENTATION (C03, C04:  *)
(* "every concurrent history is equivalent to a sequential one").  The     *)
(* contract is deliberately permissive where the properties are silent     *)
(* (e.g. the deadline of an item appended to after a delayed flush), so a  *)
(* history can be linearizable against it and still be something no        *)
(* one-at-a-time execution of this server produces.  The driver therefore  *)
(* also runs every one-at-a-time order of the program's commands on a      *)
(* fresh store and records what the clients see (`serial` of the program   *)
(* line: outcome signature -> orders producing it); a concurrent history   *)
(* must show one of these outcomes, for an order that respects real time:  *)
(* a command that returned before another was invoked precedes it.         *)
(***************************************************************************)
ProgLine(hh) == LET S == {i \in 1..hh : Rec[i].e = "cprog"} IN
                IF S = {} THEN 0 ELSE CHOOSE i \in S : \A j \in S : j <= i
HasSerial(hh) == LET pl == ProgLine(hh) IN pl > 0 /\ Rec[pl].id = Rec[hh].prog /\ "serial" \in DOMAIN Rec[pl]
(* line of the k-th invocation / return of client c in the history that starts at hh and ends at line e *)
EvLines(hh, e, c, what) == SelectSeq([i \in 1..(e - hh) |-> hh + i], LAMBDA i : Rec[i].e = what /\ Rec[i].c = c)
Occ(order, i) == Cardinality({p \in 1..i : order[p] = order[i]})
(* (the invocation / return lines of every client are computed once per history and handed down) *)
RealTimeOK(order, invs, rets) ==
    \A i \in 1..Len(order) : \A j \in (i + 1)..Len(order) :
        ~(rets[order[j]][Occ(order, j)] < invs[order[i]][Occ(order, i)])
SerialOK(fin, hh, e) ==
    \/ ~HasSerial(hh) \/ "sig" \notin DOMAIN fin
    \/ LET nc == Rec[ProgLine(hh)].nclients
           invs == [c \in 1..nc |-> EvLines(hh, e, c, "inv")]
           rets == [c \in 1..nc |-> EvLines(hh, e, c, "ret")]
       IN \E x \in SeqRange(Rec[ProgLine(hh)].serial) :
             /\ x.sig = fin.sig
             /\ \E o \in SeqRange(x.orders) : RealTimeOK(o, invs, rets)

Final == /\ InHist /\ E.e = "final" /\ DOMAIN pend = {} /\ lind = {}
         /\ E.outcome = "Complete"
         /\ (Relaxed \/ ReadsOK(cs, E.gets, 1))
         /\ BoundOK(E) /\ AcctOK(E)
         /\ IF Relaxed \/ SerialOK(E, h, l) THEN TLCSet(1, TLCGet(1) \cup {h}) ELSE TLCSet(3, TLCGet(3) \cup {h})
         \* conformance to the MemcConc model (replayed TLC schedules): same steps in the same order, same statuses
         /\ IF "expect" \in DOMAIN Rec[h] /\ ~Conforms(Rec[h].expect, E, h) THEN TLCSet(2, TLCGet(2) \cup {h}) ELSE TRUE
         /\ l' = l + 1 /\ UNCHANGED <<h, he, cs, pend, lind>>

Next == Setup \/ Tick1 \/ Invoke \/ Return \/ Final \/ \E c \in DOMAIN pend : Lin(c)
Spec == Init /\ [][Next]_vars

Report == PrintT("RESULT " \o ToJson([lines |-> N, histories |-> Cardinality(Starts), accepted |-> TLCGet(1), drift |-> TLCGet(2), nonserial |-> TLCGet(3) \ TLCGet(1),
                                      violations |-> <<>>, coverage |-> <<>>, notes |-> <<>>]))
=============================================================================
