#!/usr/bin/env python3
"""save_seed.py <ID> <name> <needs> <caught_by> <ran>   copies /tmp/mut/<ID>/mutant into /verif/seeded/<name>/ with meta.json"""
import json, os, shutil, sys
pid, name, needs, caught, ran = sys.argv[1:6]
src = "/tmp/%s/%s/mutant" % (os.environ.get("MUTROOT", "mut"), pid)
dst = "/verif/seeded/%s" % name
os.makedirs(dst, exist_ok=True)
for f in os.listdir(src):
    p = os.path.join(src, f)
    if os.path.isfile(p) and os.path.getsize(p) < 400000:
        shutil.copy(p, os.path.join(dst, f))
meta = {"id": name, "breaks_property": pid, "needs_to_manifest": needs, "written_by": "independent sub-agent given only the property text and a scratch worktree",
        "confirmed": "patch applies at /repo HEAD; builds with and without --cfg memcrs_verif; 92 tests pass with it; the demonstration fails with it and passes without it (lib/confirm_mut.sh, run by me in the scratch worktree)",
        "ran": ran, "caught_by": caught}
json.dump(meta, open(os.path.join(dst, "meta.json"), "w"), indent=1)
print("saved", dst, os.listdir(dst))
