//! Memcached binary protocol: request builder and an independent response
//! parser.  Nothing in here judges anything: it converts between bytes and
//! logged fields.  Numbers that may exceed 31 bits are logged as decimal
//! strings, byte strings as lower-case hex.
use serde_json::{json, Value};

pub fn hex(b: &[u8]) -> String {
    let mut s = String::with_capacity(b.len() * 2);
    for x in b {
        s.push_str(&format!("{:02x}", x));
    }
    s
}

pub fn unhex(s: &str) -> Vec<u8> {
    let b = s.as_bytes();
    let mut out = Vec::with_capacity(b.len() / 2);
    let mut i = 0;
    while i + 1 < b.len() {
        let h = (b[i] as char).to_digit(16).unwrap_or(0) as u8;
        let l = (b[i + 1] as char).to_digit(16).unwrap_or(0) as u8;
        out.push(h * 16 + l);
        i += 2;
    }
    out
}

/// A raw request frame: every header field is free so that malformed frames
/// can be expressed.
#[derive(Clone, Debug)]
pub struct Frame {
    pub magic: u8,
    pub opcode: u8,
    pub key_length: u16,
    pub extras_length: u8,
    pub data_type: u8,
    pub vbucket: u16,
    pub body_length: u32,
    pub opaque: u32,
    pub cas: u64,
    /// the bytes that follow the header (whatever their meaning)
    pub body: Vec<u8>,
}

impl Frame {
    /// A frame whose header lengths are consistent with the parts given.
    pub fn consistent(opcode: u8, extras: &[u8], key: &[u8], value: &[u8], opaque: u32, cas: u64) -> Frame {
        let mut body = Vec::with_capacity(extras.len() + key.len() + value.len());
        body.extend_from_slice(extras);
        body.extend_from_slice(key);
        body.extend_from_slice(value);
        Frame {
            magic: 0x80,
            opcode,
            key_length: key.len() as u16,
            extras_length: extras.len() as u8,
            data_type: 0,
            vbucket: 0,
            body_length: body.len() as u32,
            opaque,
            cas,
            body,
        }
    }

    pub fn header_bytes(&self) -> [u8; 24] {
        let mut h = [0u8; 24];
        h[0] = self.magic;
        h[1] = self.opcode;
        h[2..4].copy_from_slice(&self.key_length.to_be_bytes());
        h[4] = self.extras_length;
        h[5] = self.data_type;
        h[6..8].copy_from_slice(&self.vbucket.to_be_bytes());
        h[8..12].copy_from_slice(&self.body_length.to_be_bytes());
        h[12..16].copy_from_slice(&self.opaque.to_be_bytes());
        h[16..24].copy_from_slice(&self.cas.to_be_bytes());
        h
    }

    pub fn bytes(&self) -> Vec<u8> {
        let mut v = self.header_bytes().to_vec();
        v.extend_from_slice(&self.body);
        v
    }

    /// Header fields as logged (body_length saturated to 2^31-1 with a flag).
    pub fn header_json(&self) -> Value {
        let bl = self.body_length as u64;
        let (el, kl) = (self.extras_length as usize, self.key_length as usize);
        // the key bytes as sent, for short keys (who wrote / removed which probe item)
        let key = if kl > 0 && kl <= 16 && self.body.len() >= el + kl { hex(&self.body[el..el + kl]) } else { String::new() };
        json!({
            "magic": self.magic, "op": self.opcode, "kl": self.key_length, "el": self.extras_length,
            "dt": self.data_type, "bl": std::cmp::min(bl, 0x7fff_ffff), "blbig": bl > 0x7fff_ffff,
            "opq": self.opaque.to_string(), "cas": self.cas.to_string(), "sent": self.body.len(),
            "key": key,
        })
    }
}

pub const OP_GET: u8 = 0x00;
pub const OP_SET: u8 = 0x01;
pub const OP_ADD: u8 = 0x02;
pub const OP_REPLACE: u8 = 0x03;
pub const OP_DELETE: u8 = 0x04;
pub const OP_INCR: u8 = 0x05;
pub const OP_DECR: u8 = 0x06;
pub const OP_QUIT: u8 = 0x07;
pub const OP_FLUSH: u8 = 0x08;
pub const OP_GETQ: u8 = 0x09;
pub const OP_NOOP: u8 = 0x0a;
pub const OP_VERSION: u8 = 0x0b;
pub const OP_GETK: u8 = 0x0c;
pub const OP_GETKQ: u8 = 0x0d;
pub const OP_APPEND: u8 = 0x0e;
pub const OP_PREPEND: u8 = 0x0f;
pub const OP_STAT: u8 = 0x10;
pub const OP_QUITQ: u8 = 0x17;
pub const OP_TOUCH: u8 = 0x1c;
pub const OP_GAT: u8 = 0x1d;
pub const OP_GATQ: u8 = 0x1e;
pub const OP_SASL_LIST: u8 = 0x20;
pub const OP_SASL_AUTH: u8 = 0x21;
pub const OP_SASL_STEP: u8 = 0x22;
pub const OP_GATK: u8 = 0x23;
pub const OP_GATKQ: u8 = 0x24;

/// Abstract command name + quiet/getk bits -> opcode.
pub fn opcode_of(op: &str, quiet: bool, getk: bool) -> u8 {
    match (op, quiet, getk) {
        ("get", false, false) => 0x00,
        ("get", true, false) => 0x09,
        ("get", false, true) => 0x0c,
        ("get", true, true) => 0x0d,
        ("set", false, _) => 0x01,
        ("set", true, _) => 0x11,
        ("add", false, _) => 0x02,
        ("add", true, _) => 0x12,
        ("replace", false, _) => 0x03,
        ("replace", true, _) => 0x13,
        ("delete", false, _) => 0x04,
        ("delete", true, _) => 0x14,
        ("incr", false, _) => 0x05,
        ("incr", true, _) => 0x15,
        ("decr", false, _) => 0x06,
        ("decr", true, _) => 0x16,
        ("quit", false, _) => 0x07,
        ("quit", true, _) => 0x17,
        ("flush", false, _) => 0x08,
        ("flush", true, _) => 0x18,
        ("append", false, _) => 0x0e,
        ("append", true, _) => 0x19,
        ("prepend", false, _) => 0x0f,
        ("prepend", true, _) => 0x1a,
        ("noop", _, _) => 0x0a,
        ("version", _, _) => 0x0b,
        ("stat", _, _) => 0x10,
        ("touch", _, _) => 0x1c,
        ("gat", false, false) => 0x1d,
        ("gat", true, false) => 0x1e,
        ("gat", false, true) => 0x23,
        ("gat", true, true) => 0x24,
        ("sasl_list", _, _) => 0x20,
        ("sasl_auth", _, _) => 0x21,
        ("sasl_step", _, _) => 0x22,
        _ => panic!("unknown abstract op {}", op),
    }
}

/// opcode -> (abstract name, quiet, getk); None for unassigned opcodes.
pub fn name_of(opcode: u8) -> Option<(&'static str, bool, bool)> {
    Some(match opcode {
        0x00 => ("get", false, false),
        0x09 => ("get", true, false),
        0x0c => ("get", false, true),
        0x0d => ("get", true, true),
        0x01 => ("set", false, false),
        0x11 => ("set", true, false),
        0x02 => ("add", false, false),
        0x12 => ("add", true, false),
        0x03 => ("replace", false, false),
        0x13 => ("replace", true, false),
        0x04 => ("delete", false, false),
        0x14 => ("delete", true, false),
        0x05 => ("incr", false, false),
        0x15 => ("incr", true, false),
        0x06 => ("decr", false, false),
        0x16 => ("decr", true, false),
        0x07 => ("quit", false, false),
        0x17 => ("quit", true, false),
        0x08 => ("flush", false, false),
        0x18 => ("flush", true, false),
        0x0e => ("append", false, false),
        0x19 => ("append", true, false),
        0x0f => ("prepend", false, false),
        0x1a => ("prepend", true, false),
        0x0a => ("noop", false, false),
        0x0b => ("version", false, false),
        0x10 => ("stat", false, false),
        0x1c => ("touch", false, false),
        0x1d => ("gat", false, false),
        0x1e => ("gat", true, false),
        0x23 => ("gat", false, true),
        0x24 => ("gat", true, true),
        0x20 => ("sasl_list", false, false),
        0x21 => ("sasl_auth", false, false),
        0x22 => ("sasl_step", false, false),
        _ => return None,
    })
}

/// One parsed response (or what is left of a malformed tail).
pub fn parse_responses(mut b: &[u8]) -> Vec<Value> {
    let mut out = Vec::new();
    while !b.is_empty() {
        if b.len() < 24 {
            out.push(json!({"magic": 0, "op": 0, "kl": 0, "el": 0, "dt": 0, "st": 0, "bl": 0, "al": 0,
                "opq": "0", "cas": "0", "x": "", "key": "", "v": "", "f": "", "n": "",
                "short": b.len(), "raw": hex(b)}));
            break;
        }
        let magic = b[0];
        let op = b[1];
        let kl = u16::from_be_bytes([b[2], b[3]]) as usize;
        let el = b[4] as usize;
        let dt = b[5];
        let st = u16::from_be_bytes([b[6], b[7]]);
        let bl = u32::from_be_bytes([b[8], b[9], b[10], b[11]]) as usize;
        let opq = u32::from_be_bytes([b[12], b[13], b[14], b[15]]);
        let cas = u64::from_be_bytes([b[16], b[17], b[18], b[19], b[20], b[21], b[22], b[23]]);
        let rest = &b[24..];
        let al = std::cmp::min(bl, rest.len());
        let body = &rest[..al];
        let xl = std::cmp::min(el, body.len());
        let x = &body[..xl];
        let kend = std::cmp::min(xl + kl, body.len());
        let key = &body[xl..kend];
        let v = &body[kend..];
        let f = if x.len() == 4 {
            u32::from_be_bytes([x[0], x[1], x[2], x[3]]).to_string()
        } else {
            String::new()
        };
        let n = if v.len() == 8 {
            u64::from_be_bytes([v[0], v[1], v[2], v[3], v[4], v[5], v[6], v[7]]).to_string()
        } else {
            String::new()
        };
        out.push(json!({"magic": magic, "op": op, "kl": kl, "el": el, "dt": dt, "st": st,
            "bl": std::cmp::min(bl, 0x7fff_ffff), "al": al, "opq": opq.to_string(), "cas": cas.to_string(),
            "x": hex(x), "key": hex(key), "v": hex(v), "f": f, "n": n, "short": 0, "raw": ""}));
        b = &rest[al..];
    }
    out
}
