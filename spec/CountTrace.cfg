SPECIFICATION Spec
INVARIANT Report
POSTCONDITION Accepted
CHECK_DEADLOCK FALSE
