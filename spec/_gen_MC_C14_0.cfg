CONSTANTS
  MaxU = "9"
  Keys = {"6b31", "6b32", "6b33"}
  Vals = {"", "61", "616161"}
  FlagVals = {"0"}
  Ttls = {0, 1}
  CasVals = {"0"}
  Deltas = {"1"}
  Inits = {"5"}
  Quiets = {FALSE}
  Ops = {"get", "set", "append", "incr", "delete", "flush"}
  TickTo = {1}
  Policy = "random"
  MemLimit = 50
  ItemLimit = 64
  MaxSteps = 4
  Emit = FALSE
SPECIFICATION Spec
INVARIANT Refines
INVARIANT Accounting
INVARIANT EmptyZero
INVARIANT Bound
CONSTRAINT Bounded
CHECK_DEADLOCK FALSE
VIEW View
