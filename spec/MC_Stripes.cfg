CONSTANTS
  Clients = {1, 2, 3}
  NStripes = 2
  Ordered = TRUE
SPECIFICATION Spec
INVARIANT TypeOK
INVARIANT Exclusive
PROPERTY Termination
