#!/bin/bash
# usage: confirm_mut.sh <ID> <demo test name (integration test under memcrs/tests, without .rs)>
# Confirms in the agent's scratch worktree: patch applies at HEAD, both builds, the 92 tests pass with the change (demo moved aside),
# the demo fails with the change and passes without it.
ID=$1; DEMO=$2; W=/tmp/${MUTROOT:-mut}/$ID
cd $W || exit 2
git stash -q -u 2>/dev/null; git checkout -q -- . ; git stash pop -q 2>/dev/null
# make sure the worktree has exactly the patch applied on the source
git checkout -q -- memcrs/src 2>/dev/null
git apply mutant/patch.diff || { echo "PATCH DOES NOT APPLY"; exit 1; }
echo "--- builds"
cargo build --offline -p memcrs --target-dir $W/target 2>&1 | grep -E "^error|Finished" | head -2
RUSTFLAGS="--cfg memcrs_verif" cargo build --offline -p memcrs --target-dir $W/target-v 2>&1 | grep -E "^error|Finished" | head -2
echo "--- 92 tests with the change (demo aside)"
mkdir -p $W/aside; mv $W/memcrs/tests/* $W/aside/ 2>/dev/null
cargo test --workspace --offline --target-dir $W/target 2>&1 | grep -E "^test result: .* [0-9]+ passed" | head -1
mv $W/aside/* $W/memcrs/tests/ 2>/dev/null
if [ -n "$DEMO" ]; then
echo "--- demo WITH the change"
cargo test --offline -p memcrs --target-dir $W/target --test $DEMO 2>&1 | grep -E "^test result" | head -2
git apply -R mutant/patch.diff
echo "--- demo WITHOUT the change"
cargo test --offline -p memcrs --target-dir $W/target --test $DEMO 2>&1 | grep -E "^test result" | head -2
git apply mutant/patch.diff
fi
