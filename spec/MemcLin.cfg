CONSTANT MaxU = "18446744073709551615"
SPECIFICATION Spec
POSTCONDITION Report
CHECK_DEADLOCK FALSE
