mod cases;
mod conc;
mod concgen;
mod conn;
mod ext;
mod fault;
mod prog;
mod proto;
mod seq;
mod tcp;
mod tcpgen;
mod wire;

use rand::rngs::SmallRng;
use rand::SeedableRng;
use std::collections::HashMap;
use std::fs::File;
use std::io::{BufRead, BufReader, BufWriter, Write};

fn args_map(args: &[String]) -> HashMap<String, String> {
    let mut m = HashMap::new();
    let mut i = 0;
    while i < args.len() {
        if let Some(k) = args[i].strip_prefix("--") {
            if i + 1 < args.len() && !args[i + 1].starts_with("--") {
                m.insert(k.to_string(), args[i + 1].clone());
                i += 2;
            } else {
                m.insert(k.to_string(), "true".to_string());
                i += 1;
            }
        } else {
            i += 1;
        }
    }
    m
}

fn main() {
    let args: Vec<String> = std::env::args().collect();
    if args.len() < 2 {
        eprintln!("usage: mcverif <gen-seq|run-seq|...> [--opt val]...");
        std::process::exit(2);
    }
    // panics of the code under test are data: counted, not printed
    std::panic::set_hook(Box::new(|_| {
        tcp::PANICS.fetch_add(1, std::sync::atomic::Ordering::SeqCst);
    }));
    let a = args_map(&args[2..]);
    let get = |k: &str, d: &str| a.get(k).cloned().unwrap_or_else(|| d.to_string());
    match args[1].as_str() {
        "gen-seq" => {
            let seed: u64 = get("seed", "1").parse().unwrap();
            let count: usize = get("count", "10").parse().unwrap();
            let profile = get("profile", "general");
            let with_phys = a.contains_key("phys");
            let mut out = BufWriter::new(File::create(get("out", "trace.ndjson")).unwrap());
            let mut progs = a.get("programs").map(|p| BufWriter::new(File::create(p).unwrap()));
            let mut rng = SmallRng::seed_from_u64(seed);
            let mut events = 0;
            for i in 0..count {
                let h = prog::generate(&format!("{}-{}-{}", profile, seed, i), &profile, &mut rng);
                if let Some(p) = progs.as_mut() {
                    writeln!(p, "{}", prog::history_to_json(&h)).unwrap();
                }
                if a.contains_key("pairs") {
                    // C19: the same program with every quiet bit flipped must leave the same items behind
                    events += seq::run_history_final(&h, &mut out, 2 * i + 1, i + 1, "a");
                    let mut h2 = h.clone();
                    for s in h2.steps.iter_mut() {
                        if let prog::Step::Cmd(c) = s {
                            if !matches!(c.op.as_str(), "noop" | "version" | "stat") {
                                c.q = !c.q;
                            }
                        }
                    }
                    events += seq::run_history_final(&h2, &mut out, 2 * i + 2, i + 1, "b");
                } else {
                    events += seq::run_history(&h, &mut out, with_phys, i + 1);
                }
                if seq::HUNG.load(std::sync::atomic::Ordering::SeqCst) {
                    break;
                }
            }
            out.flush().unwrap();
            println!("{{\"histories\": {}, \"events\": {}}}", count, events);
        }
        "run-seq" => {
            let with_phys = a.contains_key("phys");
            let f = BufReader::new(File::open(get("programs", "programs.json")).unwrap());
            let mut out = BufWriter::new(File::create(get("out", "trace.ndjson")).unwrap());
            let mut events = 0;
            let mut n = 0;
            for line in f.lines() {
                let line = line.unwrap();
                if line.trim().is_empty() {
                    continue;
                }
                let v: serde_json::Value = serde_json::from_str(&line).expect("bad program line");
                let h = prog::history_from_json(&v);
                n += 1;
                if a.contains_key("pairs") {
                    events += seq::run_history_final(&h, &mut out, 2 * n - 1, n, "a");
                    let mut h2 = h.clone();
                    for s in h2.steps.iter_mut() {
                        if let prog::Step::Cmd(c) = s {
                            if !matches!(c.op.as_str(), "noop" | "version" | "stat") {
                                c.q = !c.q;
                            }
                        }
                    }
                    events += seq::run_history_final(&h2, &mut out, 2 * n, n, "b");
                    continue;
                }
                events += seq::run_history(&h, &mut out, with_phys, n);
                if seq::HUNG.load(std::sync::atomic::Ordering::SeqCst) {
                    break;
                }
            }
            out.flush().unwrap();
            println!("{{\"histories\": {}, \"events\": {}}}", n, events);
        }
        "gen-wire" => {
            let seed: u64 = get("seed", "1").parse().unwrap();
            let count: usize = get("count", "10").parse().unwrap();
            let profile = get("profile", "pipeline");
            let segmode = get("seg", "single");
            let mut out = BufWriter::new(File::create(get("out", "wire.ndjson")).unwrap());
            let mut rng = SmallRng::seed_from_u64(seed);
            let mut events = 0;
            let mut universes = 0;
            let mut maxcap = 0usize;
            let streams: Vec<wire::Stream> = if profile == "grid" {
                // the grid is split over `parts` jobs by opcode
                let part: usize = get("part", "0").parse().unwrap();
                let parts: usize = get("parts", "1").parse().unwrap();
                let limit: u32 = get("limit", "1024").parse().unwrap();
                let ops: Vec<u8> = (0u16..=255).map(|x| x as u8).filter(|x| (*x as usize) % parts == part).collect();
                wire::grid_streams(limit, &ops)
            } else {
                (0..count).map(|i| wire::gen_stream(&profile, &format!("{}-{}-{}", profile, seed, i), &mut rng)).collect()
            };
            for (i, s) in streams.iter().enumerate() {
                let bytes = s.bytes();
                writeln!(out, "{}", wire::stream_event(i + 1, s, bytes.len())).unwrap();
                events += 1;
                let segs = wire::segmentations(bytes.len(), &segmode, &mut rng);
                for (u, seg) in segs.iter().enumerate() {
                    events += wire::run_universe(&bytes, seg, s.limit, u + 1, &mut out, &mut maxcap);
                    universes += 1;
                }
            }
            out.flush().unwrap();
            println!("{{\"streams\": {}, \"universes\": {}, \"events\": {}, \"maxcap\": {}}}", streams.len(), universes, events, maxcap);
        }
        "run-cases" => {
            // TLC-generated (stream, cut, reads) cases of the Wire model, at the decoder and/or over a socket
            let mode = get("mode", "wire");
            let limit: u32 = get("limit", "64").parse().unwrap();
            let base: u16 = get("port", "23000").parse().unwrap();
            let f = BufReader::new(File::open(get("cases", "cases.json")).unwrap());
            let mut out = BufWriter::new(File::create(get("out", "cases.ndjson")).unwrap());
            let mut n = 0;
            let mut ran = 0;
            let mut maxcap = 0usize;
            let srv = if mode == "tcp" {
                tcp::install_hook();
                Some(tcp::start_server(tcp::free_port(base), "none", 0, limit, 64, 30, 2))
            } else {
                None
            };
            for line in f.lines() {
                let line = line.unwrap();
                if line.trim().is_empty() {
                    continue;
                }
                n += 1;
                let v: serde_json::Value = serde_json::from_str(&line).expect("bad case line");
                let c = cases::concretise(&v, limit, n);
                let bytes = c.stream.bytes();
                let mut ev = wire::stream_event(n, &c.stream, bytes.len());
                ev["expect"] = serde_json::json!({"exec": c.expect_exec,
                    "resp": c.expect_resp.iter().map(|(o, k)| serde_json::json!([o, k])).collect::<Vec<_>>(), "cut": c.cut});
                if mode == "wire" {
                    if c.has_over {
                        continue;
                    }
                    writeln!(out, "{}", ev).unwrap();
                    // the client stops at `cut`: only that prefix is ever fed
                    let upto = std::cmp::min(c.cut, bytes.len());
                    wire::run_universe(&bytes[..upto], &c.chunks, limit, 1, &mut out, &mut maxcap);
                    ran += 1;
                } else {
                    writeln!(out, "{}", ev).unwrap();
                    let srv = srv.as_ref().unwrap();
                    let upto = std::cmp::min(c.cut, bytes.len());
                    tcp::run_cut_universe(srv, &bytes[..upto], &c.chunks, 1, upto == bytes.len(), &mut out);
                    ran += 1;
                    if tcp::TIMEOUTS.load(std::sync::atomic::Ordering::SeqCst) >= 4 {
                        break;
                    }
                }
            }
            out.flush().unwrap();
            println!("{{\"cases\": {}, \"ran\": {}, \"maxcap\": {}}}", n, ran, maxcap);
        }
        "tcp-conn" => {
            // connection lifecycles against the connection limit (C17)
            let seed: u64 = get("seed", "1").parse().unwrap();
            let count: usize = get("count", "4").parse().unwrap();
            let base: u16 = get("port", "24000").parse().unwrap();
            let mut out = BufWriter::new(File::create(get("out", "conn.ndjson")).unwrap());
            let mut rng = SmallRng::seed_from_u64(seed);
            tcp::install_hook();
            let mut events = 0;
            let scs: Vec<serde_json::Value> = if let Some(pf) = a.get("scenarios") {
                BufReader::new(File::open(pf).unwrap()).lines().map(|l| l.unwrap()).filter(|l| !l.trim().is_empty())
                    .map(|l| serde_json::from_str(&l).unwrap()).collect()
            } else {
                (0..count).map(|i| conn::gen_scenario(&mut rng, 1 + ((seed as usize + i) % 4) as u32)).collect()
            };
            for (i, sc) in scs.iter().enumerate() {
                events += conn::run_scenario(sc, base + (i as u16) * 3, &mut out, i + 1);
            }
            out.flush().unwrap();
            println!("{{\"scenarios\": {}, \"events\": {}}}", scs.len(), events);
        }
        "tcp-fault" => {
            // C18: every cut offset x fault kind, with an observer connection
            let seed: u64 = get("seed", "1").parse().unwrap();
            let count: usize = get("count", "2").parse().unwrap();
            let cuts = get("cuts", "sample");
            let base: u16 = get("port", "25000").parse().unwrap();
            let mut out = BufWriter::new(File::create(get("out", "fault.ndjson")).unwrap());
            let mut rng = SmallRng::seed_from_u64(seed);
            tcp::install_hook();
            let srv = tcp::start_server(tcp::free_port(base), "none", 0, 1024, 64, 3, 2);
            let mut runs = 0;
            for i in 0..count {
                let fs = fault::gen_fstream(&mut rng);
                let mut bytes = Vec::new();
                let mut bounds = vec![0usize];
                for f in &fs.frames {
                    bytes.extend_from_slice(&f.bytes());
                    bounds.push(bytes.len());
                }
                writeln!(out, "{}", fault::fstream_event(i + 1, &fs, bytes.len())).unwrap();
                let offsets: Vec<usize> = if cuts == "all" { (0..=bytes.len()).collect() } else {
                    use rand::Rng;
                    let mut v: Vec<usize> = Vec::new();
                    for b in &bounds {
                        for d in [-1i64, 0, 1, 2, 4, 5, 12, 23, 24, 25] {
                            let x = *b as i64 + d;
                            if x >= 0 && x as usize <= bytes.len() { v.push(x as usize); }
                        }
                    }
                    for _ in 0..10 { v.push(rng.gen_range(0..=bytes.len())); }
                    v.sort(); v.dedup(); v
                };
                for c in offsets {
                    for kind in fault::KINDS {
                        if kind == "corrupt" {
                            // garbage that invalidates a header: only where a header begins or inside its checked fields
                            let inside = bounds.iter().any(|b| c >= *b && c - *b <= 5 && c - *b != 3);
                            if !inside { continue; }
                        }
                        if (kind == "silence" || kind == "reset") && cuts != "all" && c % 3 != 0 { continue; }
                        fault::run_fault(&srv, &fs, &bytes, c, kind, &mut rng, &mut out);
                        runs += 1;
                    }
                }
            }
            // faults that leave a bulky answer unsent; the server runs everything on one thread here, as memcrsd's
            // current-thread mode does, so that a stalled worker cannot hide behind another one
            let srv1 = tcp::start_server(tcp::free_port(base + 50), "none", 0, 1 << 20, 64, 3, 0);
            for _ in 0..3 {
                fault::run_bulky(&srv1, &mut out);
                runs += 1;
            }
            // truncated request behind a complete one, then silence, on every slot of a small server
            let srv2 = tcp::start_server(tcp::free_port(base + 60), "none", 0, 1024, 2, 2, 2);
            std::thread::sleep(std::time::Duration::from_millis(100));
            fault::run_silent_hogs(srv2.port, 2, 2, &mut out);
            runs += 1;
            out.flush().unwrap();
            println!("{{\"streams\": {}, \"runs\": {}}}", count, runs);
        }
        "cfg-suite" => {
            // C20: start the real binary with a command line and run the black-box suite against it
            let bin = get("bin", "memcrsd");
            let port: u16 = get("port", "26000").parse().unwrap();
            let port = tcp::free_port(port);
            let conn_limit: u32 = get("conn-limit", "3").parse().unwrap();
            let item_limit: u32 = get("item-limit", "2048").parse().unwrap();
            let seed: u64 = get("seed", "1").parse().unwrap();
            let nprog: usize = get("count", "4").parse().unwrap();
            let mut sargs: Vec<String> = vec!["--port".into(), port.to_string(), "--connection-limit".into(), conn_limit.to_string(),
                "--item-size-limit".into(), item_limit.to_string()];
            for (k, f) in [("runtime", "--runtime-type"), ("threads", "--threads"), ("policy", "--eviction-policy"), ("memory", "--memory-limit")] {
                if let Some(v) = a.get(k) {
                    sargs.push(f.to_string());
                    sargs.push(v.clone());
                }
            }
            let child = ext::spawn_server(&bin, &sargs, port);
            match child {
                None => {
                    println!("{{\"started\": false, \"args\": {:?}}}", sargs);
                }
                Some(mut ch) if a.contains_key("mem-probe") => {
                    // C14 / C15 on the binary: the configured memory limit is the one the eviction works with
                    let lim: u64 = get("mem-probe", "65536").parse().unwrap();
                    let n = ext::mem_probe(port, lim, &get("out", "memprobe.ndjson"));
                    let _ = ch.kill();
                    let _ = ch.wait();
                    println!("{}", serde_json::json!({"started": true, "args": sargs, "scenarios": n}));
                }
                Some(mut ch) if a.contains_key("conn-only") => {
                    // C17: connection-limit scenarios only
                    let n = ext::conn_scenarios(port, conn_limit, item_limit, seed, nprog, &get("out", "cfgconn.ndjson"));
                    let _ = ch.kill();
                    let _ = ch.wait();
                    println!("{}", serde_json::json!({"started": true, "args": sargs, "scenarios": n}));
                }
                Some(mut ch) => {
                    let r = ext::suite(port, conn_limit, item_limit, seed, nprog, &get("out", "cfg"), a.contains_key("ttl"));
                    let _ = ch.kill();
                    let _ = ch.wait();
                    let mut r2 = r;
                    r2["started"] = serde_json::json!(true);
                    r2["args"] = serde_json::json!(sargs);
                    println!("{}", r2);
                }
            }
        }
        "conc" => {
            // scheduler-driven exploration of concurrent programs
            let kind = get("kind", "C03");
            let set = get("set", "pairs");
            let seed: u64 = get("seed", "1").parse().unwrap();
            let count: usize = get("count", "20").parse().unwrap();
            let max_runs: usize = get("max-runs", "3000").parse().unwrap();
            let random_runs: usize = get("random-runs", "200").parse().unwrap();
            let part: usize = get("part", "0").parse().unwrap();
            let parts: usize = get("parts", "1").parse().unwrap();
            let mut out = BufWriter::new(File::create(get("out", "conc.ndjson")).unwrap());
            let mut rng = SmallRng::seed_from_u64(seed);
            conc::install_scheduler_hook();
            let progs: Vec<conc::Program> = match set.as_str() {
                "pairs" => concgen::pairs(&kind),
                "sampled" => concgen::sampled(&kind, count, &mut rng),
                "swarms" => concgen::swarms(&kind),
                "eviction" => concgen::eviction(&kind, count, &mut rng),
                "clocked" => concgen::clocked(&kind),
                _ => panic!("unknown program set"),
            };
            let mut runs = 0;
            let mut exhausted = 0;
            let mut bad = 0;
            let mut nprog = 0;
            let only_init = a.get("init").cloned();
            let layer = get("layer", "memc");
            let progs: Vec<conc::Program> = progs.into_iter().map(|mut p| {
                p.layer = layer.clone();
                if layer == "cache" {
                    p.name = format!("{}@cache", p.name);
                }
                p
            }).collect();
            for (i, p) in progs.iter().enumerate() {
                if i % parts != part {
                    continue;
                }
                if let Some(x) = &only_init {
                    if &p.init != x {
                        continue;
                    }
                }
                nprog += 1;
                writeln!(out, "{}", conc::program_event(i + 1, p)).unwrap();
                let (r, ex, b) = conc::explore(p, i + 1, max_runs, random_runs, seed + i as u64, &mut out);
                runs += r;
                bad += b;
                if ex {
                    exhausted += 1;
                }
                if bad >= 8 {
                    // every incomplete run is a violation already, and a run that hangs costs its watchdog's time
                    break;
                }
            }
            out.flush().unwrap();
            println!("{{\"programs\": {}, \"runs\": {}, \"exhausted\": {}, \"incomplete\": {}}}", nprog, runs, exhausted, bad);
        }
        "conc-replay" => {
            // schedules emitted by TLC from the MemcConc model, replayed step by step on the real crate
            conc::install_scheduler_hook();
            let f = BufReader::new(File::open(get("scheds", "scheds.json")).unwrap());
            let mut out = BufWriter::new(File::create(get("out", "replay.ndjson")).unwrap());
            let mut n = 0;
            for line in f.lines() {
                let line = line.unwrap();
                if line.trim().is_empty() {
                    continue;
                }
                let v: serde_json::Value = serde_json::from_str(&line).expect("bad sched line");
                n += 1;
                let init = v["init"].as_str().unwrap_or("absent").to_string();
                let mut clients = Vec::new();
                let mut kind = "C03".to_string();
                let mut has_flush = false;
                for c in v["prog"].as_array().unwrap() {
                    let mut cmd = prog::cmd_from_json(c);
                    cmd.key = b"ck".to_vec();
                    cmd.flags = 9;
                    cmd.delta = 1;
                    cmd.initial = 10;
                    if !matches!(cmd.op.as_str(), "get" | "set" | "delete") {
                        kind = "C04".to_string();
                    }
                    if cmd.op == "flush" {
                        cmd.key = vec![];
                        cmd.flags = 0;
                        has_flush = true;
                    }
                    clients.push(vec![cmd]);
                }
                if has_flush {
                    kind = "C08".to_string();
                }
                // (programs with a flush are looked at again after the delay has run out, as the model does)
                let p = conc::Program { layer: "memc".into(), name: format!("tlc-{}", n), kind, init: init.clone(), policy: "none".into(), mem_limit: 0,
                    keys: vec![b"ck".to_vec()], setup: concgen::setup(&init), clients, post_tick: if has_flush { if init == "expired" { 9 } else { 4 } } else { 0 } };
                let order: Vec<usize> = v["sched"].as_array().unwrap().iter().map(|x| x[0].as_u64().unwrap_or(1) as usize).collect();
                let sites: Vec<String> = v["sched"].as_array().unwrap().iter().map(|x| x[1].as_str().unwrap_or("").to_string()).collect();
                let r = conc::run_sched(&p, &[], Some(&order), &mut None, 400);
                writeln!(out, "{}", serde_json::json!({"e": "crun", "prog": n, "run": 1, "name": p.name, "kind": p.kind, "init": p.init,
                    "policy": "none", "L": 0, "slack": 0, "keys": ["636b"], "sched": [],
                    "expect": {"order": order, "sites": sites, "resp": v["resp"], "final": v["final"]}})).unwrap();
                for e in &r.events {
                    writeln!(out, "{}", e).unwrap();
                }
            }
            out.flush().unwrap();
            println!("{{\"schedules\": {}}}", n);
        }
        "conc-stress" => {
            // OS-scheduled threads hammering one key (no scheduler), barrier-separated rounds
            let kind = get("kind", "C03");
            let seed: u64 = get("seed", "1").parse().unwrap();
            let count: usize = get("count", "50").parse().unwrap();
            let rounds: usize = get("rounds", "20").parse().unwrap();
            let mut out = BufWriter::new(File::create(get("out", "stress.ndjson")).unwrap());
            let mut rng = SmallRng::seed_from_u64(seed);
            let progs = concgen::stress(&kind, count, &mut rng);
            let mut n = 0;
            let mut hangs = 0;
            for (i, p) in progs.iter().enumerate() {
                writeln!(out, "{}", conc::program_event(i + 1, p)).unwrap();
                for r in 0..rounds {
                    n += 1;
                    if !conc::stress_round(p, &mut out, i + 1, r + 1) {
                        hangs += 1;
                        break;
                    }
                }
                if hangs >= 3 {
                    break;
                }
            }
            out.flush().unwrap();
            println!("{{\"programs\": {}, \"runs\": {}, \"incomplete\": {}}}", progs.len(), n, hangs);
        }
        "claim-ports" => {
            // self-test of the port claims: prints the ports this process got
            let base: u16 = get("port", "50000").parse().unwrap();
            let n: usize = get("count", "20").parse().unwrap();
            let mut got = Vec::new();
            let mut next = base;
            for _ in 0..n {
                let p = tcp::free_port(next);
                next = p + 1;
                got.push(p);
            }
            std::thread::sleep(std::time::Duration::from_millis(300));
            println!("{:?}", got);
        }
        "conc-casuniq" => {
            // C02 across keys: the shared CAS counter under free-running threads
            let threads: usize = get("threads", "8").parse().unwrap();
            let ops: usize = get("ops", "50000").parse().unwrap();
            let rounds: usize = get("rounds", "3").parse().unwrap();
            let mut out = BufWriter::new(File::create(get("out", "casuniq.ndjson")).unwrap());
            for _ in 0..rounds {
                writeln!(out, "{}", conc::cas_uniqueness(threads, ops)).unwrap();
            }
            out.flush().unwrap();
            println!("{{\"runs\": {}}}", rounds);
        }
        "conc-hammer" => {
            let threads: usize = get("threads", "8").parse().unwrap();
            let ops: usize = get("ops", "20000").parse().unwrap();
            let rounds: usize = get("rounds", "3").parse().unwrap();
            let mut out = BufWriter::new(File::create(get("out", "hammer.ndjson")).unwrap());
            let mut bad = 0;
            for r in 0..rounds {
                let (policy, limit) = if r % 2 == 0 { ("none", 0u64) } else { ("random", 4000u64) };
                if !conc::hammer(threads, ops, 25, policy, limit, &mut out, r + 1) {
                    bad += 1;
                    break;
                }
            }
            out.flush().unwrap();
            println!("{{\"runs\": {}, \"incomplete\": {}}}", rounds, bad);
            if bad > 0 {
                std::process::exit(0);
            }
        }
        "tcp-wire" => {
            // frame streams over a socket, every stream under many segmentations
            let seed: u64 = get("seed", "1").parse().unwrap();
            let count: usize = get("count", "10").parse().unwrap();
            let profile = get("profile", "tpipeline");
            let segmode = get("seg", "single");
            let base: u16 = get("port", "21000").parse().unwrap();
            let mut out = BufWriter::new(File::create(get("out", "tcpwire.ndjson")).unwrap());
            let mut rng = SmallRng::seed_from_u64(seed);
            tcp::install_hook();
            let mut servers: HashMap<u32, tcp::Server> = HashMap::new();
            let mut universes = 0;
            let mut next_port = base;
            for i in 0..count {
                let s = tcpgen::gen_tcp_stream(&profile, &format!("{}-{}-{}", profile, seed, i), &mut rng);
                if !servers.contains_key(&s.limit) {
                    let p = tcp::free_port(next_port);
                    next_port = p + 1;
                    // (idle timeout far above any stall of the driver: an idle close would look like a lost answer)
                    servers.insert(s.limit, tcp::start_server(p, "none", 0, s.limit, 64, if profile == "tslow" { 2 } else { 30 }, 2));
                }
                let srv = &servers[&s.limit];
                let bytes = s.bytes();
                writeln!(out, "{}", wire::stream_event(i + 1, &s, bytes.len())).unwrap();
                if profile == "tslow" {
                    // the universes differ in how the client reads, not in how it writes
                    for (u, mode) in ["attentive", "late", "drip", "stalled"].iter().enumerate() {
                        tcp::run_slow_universe(srv, &s.frames, mode, u + 1, &mut out);
                        universes += 1;
                    }
                    continue;
                }
                let segs = tcpgen::tcp_segmentations(&s, &segmode, &mut rng);
                for (u, seg) in segs.iter().enumerate() {
                    tcp::run_stream_universe(srv, &s.frames, seg, u + 1, true, &mut out);
                    universes += 1;
                    if tcp::TIMEOUTS.load(std::sync::atomic::Ordering::SeqCst) >= 4 {
                        break;
                    }
                }
                if tcp::TIMEOUTS.load(std::sync::atomic::Ordering::SeqCst) >= 4 {
                    break;
                }
            }
            out.flush().unwrap();
            println!("{{\"streams\": {}, \"universes\": {}}}", count, universes);
        }
        "tcp-prog" => {
            // histories of abstract commands over one connection each (pipelined, chunked)
            let seed: u64 = get("seed", "1").parse().unwrap();
            let count: usize = get("count", "10").parse().unwrap();
            let profile = get("profile", "general");
            let pipeline: usize = get("pipeline", "8").parse().unwrap();
            let chunk: usize = get("chunk", "0").parse().unwrap();
            let base: u16 = get("port", "22000").parse().unwrap();
            let workers: usize = get("workers", "2").parse().unwrap();
            let mut out = BufWriter::new(File::create(get("out", "tcpprog.ndjson")).unwrap());
            let mut rng = SmallRng::seed_from_u64(seed);
            tcp::install_hook();
            let mut events = 0;
            let mut next_port = base;
            let progs: Vec<prog::History> = if let Some(pf) = a.get("programs") {
                BufReader::new(File::open(pf).unwrap()).lines().map(|l| l.unwrap()).filter(|l| !l.trim().is_empty())
                    .map(|l| prog::history_from_json(&serde_json::from_str(&l).unwrap())).collect()
            } else {
                (0..count).map(|i| prog::generate(&format!("{}-{}-{}", profile, seed, i), &profile, &mut rng)).collect()
            };
            for (i, h) in progs.iter().enumerate() {
                let p = tcp::free_port(next_port);
                next_port = p + 1;
                let srv = tcp::start_server(p, &h.cfg.policy, h.cfg.mem_limit, h.cfg.item_limit, 16, 30, workers);
                events += tcp::run_history_tcp(h, &srv, &mut out, i + 1, pipeline, chunk);
                tcp::HOOK_LOG.lock().unwrap().clear();
            }
            out.flush().unwrap();
            println!("{{\"histories\": {}, \"events\": {}}}", progs.len(), events);
        }
        x => {
            eprintln!("unknown sub-command {}", x);
            std::process::exit(2);
        }
    }
    if seq::HUNG.load(std::sync::atomic::Ordering::SeqCst) {
        // a thread of the code under test never came back: leave without waiting for it
        std::process::exit(0);
    }
}
