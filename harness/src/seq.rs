//! Sequential driver: one in-process pipeline
//! `bytes -> decode -> handle_request -> encode -> bytes` over a MemoryStore
//! (optionally behind RandomPolicy) with an injected clock.
use crate::prog::{CasSpec, Cmd, History, Step};
use crate::proto::{hex, opcode_of, parse_responses, Frame};
use bytes::BytesMut;
use memcrs::cache::cache::Cache;
use memcrs::memcache::random_policy::RandomPolicy;
use memcrs::memcache::store::MemcStore;
use memcrs::memcache_server::handler::BinaryHandler;
use memcrs::memory_store::store::MemoryStore;
use memcrs::protocol::binary_codec::MemcacheBinaryCodec;
use memcrs::server::timer::Timer;
use serde_json::{json, Value};
use std::collections::HashMap;
use std::io::Write;
use std::panic::{catch_unwind, AssertUnwindSafe};
use std::sync::atomic::{AtomicU64, Ordering};
use std::sync::Arc;
use tokio_util::codec::{Decoder, Encoder};

pub struct TestTimer {
    pub now: AtomicU64,
}

impl Timer for TestTimer {
    fn timestamp(&self) -> u64 {
        self.now.load(Ordering::SeqCst)
    }
}

pub struct Sut {
    pub timer: Arc<TestTimer>,
    pub mem: Arc<MemoryStore>,
    pub policy: Option<Arc<RandomPolicy>>,
    pub cache: Arc<dyn Cache + Send + Sync>,
    pub handler: BinaryHandler,
    pub store: Arc<MemcStore>,
    pub codec: MemcacheBinaryCodec,
    pub item_limit: u32,
}

impl Sut {
    pub fn new(policy: &str, mem_limit: u64, item_limit: u32) -> Sut {
        let timer = Arc::new(TestTimer { now: AtomicU64::new(0) });
        let mem = Arc::new(MemoryStore::new(timer.clone()));
        let (cache, pol): (Arc<dyn Cache + Send + Sync>, Option<Arc<RandomPolicy>>) = if policy == "random" {
            let p = Arc::new(RandomPolicy::new(mem.clone(), mem_limit));
            (p.clone(), Some(p))
        } else {
            (mem.clone(), None)
        };
        let store = Arc::new(MemcStore::new(cache.clone()));
        Sut {
            timer,
            mem,
            policy: pol,
            cache,
            handler: BinaryHandler::new(store.clone()),
            store,
            codec: MemcacheBinaryCodec::new(item_limit),
            item_limit,
        }
    }

    /// physical content as logged fields: (present keys, stored bytes, per-entry details)
    pub fn observe(&self, with_phys: bool) -> (Vec<String>, u64, Vec<Value>) {
        let mut snap = self.mem.verif_snapshot();
        snap.sort_by(|a, b| a.0.cmp(&b.0));
        let mut present = Vec::new();
        let mut bytes = 0u64;
        let mut phys = Vec::new();
        for (k, ts, cas, flags, ttl, v) in snap {
            present.push(hex(&k));
            bytes += 24 + v.len() as u64;
            if with_phys {
                phys.push(json!({"k": hex(&k), "ts": ts, "cas": cas.to_string(), "f": flags.to_string(),
                    "ttl": std::cmp::min(ttl as u64, 1 << 30), "ttls": ttl.to_string(), "v": hex(&v)}));
            }
        }
        (present, bytes, phys)
    }

    pub fn usage(&self) -> String {
        match &self.policy {
            Some(_) => self.cache.memory_usage().to_string(),
            None => String::new(),
        }
    }

    /// Runs one request frame through decode / handle / encode.
    /// Returns (decoder outcome, response bytes, panicked)
    pub fn exchange(&mut self, bytes: &[u8]) -> (String, Vec<u8>, bool) {
        let mut buf = BytesMut::with_capacity(4096);
        buf.extend_from_slice(bytes);
        let codec = &mut self.codec;
        let handler = &self.handler;
        let res = catch_unwind(AssertUnwindSafe(|| {
            let mut out = BytesMut::new();
            match codec.decode(&mut buf) {
                Ok(Some(req)) => {
                    if let Some(resp) = handler.handle_request(req) {
                        let _ = codec.encode(resp, &mut out);
                    }
                    ("frame".to_string(), out.to_vec())
                }
                Ok(None) => ("none".to_string(), Vec::new()),
                Err(_) => ("err".to_string(), Vec::new()),
            }
        }));
        match res {
            Ok((d, o)) => (d, o, false),
            Err(_) => {
                // a fresh codec: the old one may be in the middle of a frame
                self.codec = MemcacheBinaryCodec::new(self.item_limit);
                ("panic".to_string(), Vec::new(), true)
            }
        }
    }
}

/// Tokens (CAS values) the driver has seen per key; used only to concretise
/// symbolic CAS arguments.
#[derive(Default)]
pub struct Tokens {
    seen: HashMap<Vec<u8>, Vec<u64>>,
}

impl Tokens {
    pub fn concretise(&self, key: &[u8], c: &CasSpec) -> u64 {
        let v = self.seen.get(key);
        match c {
            CasSpec::Lit(x) => *x,
            CasSpec::Cur => v.and_then(|v| v.last().copied()).unwrap_or(1),
            CasSpec::CurPlus1 => v.and_then(|v| v.last().copied()).unwrap_or(1).wrapping_add(1),
            CasSpec::Stale(i) => match v {
                Some(v) if !v.is_empty() => v[i % v.len()],
                _ => 7,
            },
        }
    }
    pub fn learn(&mut self, key: &[u8], responses: &[Value]) {
        for r in responses {
            if r["st"].as_u64() == Some(0) {
                if let Some(c) = r["cas"].as_str().and_then(|s| s.parse::<u64>().ok()) {
                    if c != 0 {
                        let e = self.seen.entry(key.to_vec()).or_default();
                        if e.last() != Some(&c) {
                            e.push(c);
                        }
                    }
                }
            }
        }
    }
}

pub fn frame_of(c: &Cmd, cas: u64) -> Frame {
    let opc = opcode_of(&c.op, c.q, c.gk);
    let mut extras = Vec::new();
    let mut key: &[u8] = &c.key;
    let mut val: &[u8] = &c.val;
    match c.op.as_str() {
        "set" | "add" | "replace" => {
            extras.extend_from_slice(&c.flags.to_be_bytes());
            extras.extend_from_slice(&c.ttl.to_be_bytes());
        }
        "incr" | "decr" => {
            extras.extend_from_slice(&c.delta.to_be_bytes());
            extras.extend_from_slice(&c.initial.to_be_bytes());
            extras.extend_from_slice(&c.ttl.to_be_bytes());
            val = &[];
        }
        "flush" => {
            // delay 0 is sent without extras when the flags field is even, with them otherwise
            if c.ttl != 0 || c.flags % 2 == 1 {
                extras.extend_from_slice(&c.ttl.to_be_bytes());
            }
            key = &[];
            val = &[];
        }
        "touch" | "gat" => {
            extras.extend_from_slice(&c.ttl.to_be_bytes());
            val = &[];
        }
        "noop" | "version" | "stat" | "quit" | "sasl_list" => {
            key = &[];
            val = &[];
        }
        "get" | "delete" => {
            val = &[];
        }
        _ => {}
    }
    Frame::consistent(opc, &extras, key, val, c.opaque, cas)
}

/// The request part of a trace event.
pub fn cmd_event(c: &Cmd, cas: u64, fr: &Frame) -> Value {
    json!({"e": "cmd", "op": c.op, "q": c.q, "gk": c.gk, "opc": fr.opcode,
        "k": if matches!(c.op.as_str(), "flush" | "noop" | "version" | "stat" | "quit" | "sasl_list") { String::new() } else { hex(&c.key) },
        "v": hex(&c.val), "f": c.flags.to_string(),
        "ttl": std::cmp::min(c.ttl as u64, 1 << 30), "ttls": c.ttl.to_string(),
        "cas": cas.to_string(), "opq": c.opaque.to_string(), "d": c.delta.to_string(), "i": c.initial.to_string(),
        "bl": fr.body_length})
}

/// As `run_history`, followed by a `final` event with the items left behind (key, value, flags, ttl; not the CAS).
pub fn run_history_final(h: &History, out: &mut dyn Write, hist_no: usize, pair: usize, side: &str) -> usize {
    let (n, state) = run_history_impl(h, out, false, hist_no);
    writeln!(out, "{}", json!({"e": "final", "pair": pair, "side": side, "state": state})).unwrap();
    n + 1
}

pub fn run_history(h: &History, out: &mut dyn Write, with_phys: bool, hist_no: usize) -> usize {
    run_history_impl(h, out, with_phys, hist_no).0
}

/// set when a command of the code under test did not return within the watchdog's patience: the thread that
/// runs it is lost, the process must end after flushing what it has
pub static HUNG: std::sync::atomic::AtomicBool = std::sync::atomic::AtomicBool::new(false);

/// The history runs in a worker thread that sends every event as it happens; this thread writes them out and
/// keeps watch: a command that does not return within 12 s is logged as a `hang` event (a verdict for the trace
/// spec, not a harness failure).
fn run_history_impl(h: &History, out: &mut dyn Write, with_phys: bool, hist_no: usize) -> (usize, Value) {
    let (tx, rx) = std::sync::mpsc::channel::<(bool, Value)>();
    let h2 = h.clone();
    std::thread::spawn(move || {
        let state = history_worker(&h2, with_phys, hist_no, &tx);
        let _ = tx.send((true, state));
    });
    let mut events = 0;
    let mut last = json!({});
    loop {
        match rx.recv_timeout(std::time::Duration::from_secs(12)) {
            Ok((true, state)) => return (events, state),
            Ok((false, ev)) => {
                if ev["e"] == "begin" {
                    last = ev;
                    continue;
                }
                writeln!(out, "{}", ev).unwrap();
                events += 1;
            }
            Err(_) => {
                let mut ev = last.clone();
                ev["e"] = json!("hang");
                writeln!(out, "{}", ev).unwrap();
                HUNG.store(true, Ordering::SeqCst);
                return (events + 1, json!([]));
            }
        }
    }
}

fn history_worker(h: &History, with_phys: bool, hist_no: usize, tx: &std::sync::mpsc::Sender<(bool, Value)>) -> Value {
    let mut sut = Sut::new(&h.cfg.policy, h.cfg.mem_limit, h.cfg.item_limit);
    let mut tokens = Tokens::default();
    let reset = json!({"e": "reset", "h": hist_no, "name": h.name, "obs": true, "phys": with_phys,
        "cfg": {"policy": h.cfg.policy, "L": std::cmp::min(h.cfg.mem_limit, 1 << 30), "limit": h.cfg.item_limit},
        "keys": h.keys.iter().map(|k| hex(k)).collect::<Vec<_>>()});
    let _ = tx.send((false, reset));
    for s in &h.steps {
        match s {
            Step::Tick(t) => {
                sut.timer.now.store(*t, Ordering::SeqCst);
                let _ = tx.send((false, json!({"e": "tick", "to": t})));
            }
            Step::Cmd(c) => {
                let cas = tokens.concretise(&c.key, &c.cas);
                let fr = frame_of(c, cas);
                let mut ev = cmd_event(c, cas, &fr);
                let mut b = ev.clone();
                b["e"] = json!("begin");
                let _ = tx.send((false, b));
                let (dec, resp, panicked) = sut.exchange(&fr.bytes());
                let rs = parse_responses(&resp);
                tokens.learn(&c.key, &rs);
                let (present, bytes, phys) = sut.observe(with_phys);
                let o = ev.as_object_mut().unwrap();
                o.insert("dec".into(), json!(dec));
                o.insert("panic".into(), json!(panicked));
                o.insert("r".into(), json!(rs));
                o.insert("present".into(), json!(present));
                o.insert("bytes".into(), json!(bytes));
                o.insert("usage".into(), json!(sut.usage()));
                o.insert("ctr".into(), json!(sut.mem.verif_cas_counter().to_string()));
                o.insert("phys".into(), json!(phys));
                let _ = tx.send((false, ev));
            }
        }
    }
    // live items at the end: what a client could still read (expired ones are not items any more)
    let now = sut.timer.now.load(Ordering::SeqCst);
    let mut snap = sut.mem.verif_snapshot();
    snap.sort_by(|a, b| a.0.cmp(&b.0));
    let state: Vec<Value> = snap.iter().filter(|(_, ts, _, _, ttl, _)| *ttl == 0 || ts + (*ttl as u64) > now)
        // (the CAS too: the two runs of a pair send the same requests with literal arguments, and whether a response is sent
        // does not move the CAS counter - "CAS relations" of C19)
        .map(|(k, ts, cas, f, ttl, v)| json!({"k": hex(k), "v": hex(v), "f": f.to_string(), "cas": cas.to_string(), "dl": if *ttl == 0 { 0 } else { ts + *ttl as u64 }})).collect();
    json!(state)
}
