CONSTANTS
  MaxU = "18446744073709551615"
  Clients = {1, 2}
  Progs <- Progs03_2
  Inits = {"absent", "present", "expired"}
  KeyLock = TRUE
  ExpiryRecheck = FALSE
  EntryApi = TRUE
  FlushLock = TRUE
  CollectOwn = TRUE
SPECIFICATION Spec
INVARIANT Linearizable
PROPERTY Termination
VIEW View
