//! Concurrency driver: real threads executing real commands on one shared store under a
//! deterministic scheduler.  Every access to shared state in memc-rs (map calls, atomic
//! counters; see memcrs::verif) is a yield point at which the thread parks until the scheduler
//! grants it the next step, so exactly one thread runs at a time and the interleaving is chosen
//! (DFS over all schedules, replay of a given schedule, or seeded random).
use crate::prog::{CasSpec, Cmd};
use crate::proto::{hex, parse_responses};
use crate::seq::{cmd_event, frame_of, Sut};
use bytes::BytesMut;
use memcrs::memcache_server::handler::BinaryHandler;
use memcrs::protocol::binary_codec::MemcacheBinaryCodec;
use rand::rngs::SmallRng;
use rand::Rng;
use serde_json::{json, Value};
use std::cell::RefCell;
use std::io::Write;
use std::panic::{catch_unwind, AssertUnwindSafe};
use std::sync::atomic::Ordering;
use std::sync::mpsc::{channel, Receiver, RecvTimeoutError, Sender};
use std::sync::{Arc, Mutex};
use std::time::Duration;
use tokio_util::codec::{Decoder, Encoder};

enum Msg {
    AtYield { w: usize, site: &'static str, key: Option<Vec<u8>> },
    Blocked { w: usize },
    Proceeding { w: usize },
    Invoke { w: usize, ev: Value },
    Return { w: usize, r: Vec<Value>, panicked: bool },
    Tick { to: u64 },
    Done { w: usize },
}

enum Ctl {
    Go,
}

struct WorkerCtx {
    id: usize,
    tx: Sender<Msg>,
    rx: Receiver<Ctl>,
}

thread_local! {
    static WORKER: RefCell<Option<WorkerCtx>> = const { RefCell::new(None) };
}

/// The process-wide hook: parks the calling worker at every yield point.
pub fn install_scheduler_hook() {
    memcrs::verif::set_hook(Some(Arc::new(|ev: &memcrs::verif::Event| {
        if !ev.pre {
            return;
        }
        WORKER.with(|w| {
            let b = w.borrow();
            if let Some(ctx) = b.as_ref() {
                park(ctx, ev.site, ev.key.map(|k| k.to_vec()), ev.would_block);
            }
        });
    })));
}

fn park(ctx: &WorkerCtx, site: &'static str, key: Option<Vec<u8>>, would_block: &dyn Fn() -> bool) {
    let _ = ctx.tx.send(Msg::AtYield { w: ctx.id, site, key });
    loop {
        match ctx.rx.recv() {
            Ok(Ctl::Go) => {
                if would_block() {
                    let _ = ctx.tx.send(Msg::Blocked { w: ctx.id });
                    continue;
                }
                let _ = ctx.tx.send(Msg::Proceeding { w: ctx.id });
                return;
            }
            Err(_) => {
                // the scheduler has given up on this run: leave the thread parked for good
                loop {
                    std::thread::park();
                }
            }
        }
    }
}

fn never() -> bool {
    false
}

#[derive(Clone)]
pub struct Program {
    /// "memc": through BinaryHandler / MemcStore; "cache": directly on the Cache trait object
    pub layer: String,
    pub name: String,
    pub kind: String,  // property the program belongs to: "C03" | "C04" | "C14" | "C16"
    pub init: String,  // "absent" | "present" | "expired"
    pub policy: String,
    pub mem_limit: u64,
    pub keys: Vec<Vec<u8>>,
    pub setup: Vec<Cmd>,
    pub clients: Vec<Vec<Cmd>>,
    /// if non-zero the clock is set to this value after the concurrent phase, before the final reads
    pub post_tick: u64,
}

#[derive(Clone, Debug, PartialEq)]
pub enum Outcome {
    Complete,
    Deadlock,
    Hang,
}

pub struct RunResult {
    pub outcome: Outcome,
    /// number of enabled alternatives at every decision point, and the choice taken
    pub decisions: Vec<(usize, usize)>,
    pub events: Vec<Value>,
    pub steps: usize,
}

fn exec_cmd(handler: &BinaryHandler, limit: u32, c: &Cmd, cas: u64) -> (Vec<Value>, bool) {
    let fr = frame_of(c, cas);
    let mut buf = BytesMut::from(&fr.bytes()[..]);
    let mut codec = MemcacheBinaryCodec::new(limit);
    let res = catch_unwind(AssertUnwindSafe(|| {
        let mut out = BytesMut::new();
        if let Ok(Some(req)) = codec.decode(&mut buf) {
            if let Some(resp) = handler.handle_request(req) {
                let _ = codec.encode(resp, &mut out);
            }
        }
        out.to_vec()
    }));
    match res {
        Ok(o) => (parse_responses(&o), false),
        Err(_) => (Vec::new(), true),
    }
}

/// The same commands issued directly against the `Cache` trait object (MemoryStore / RandomPolicy), below
/// MemcStore and its key lock: the store engine has to be atomic on its own (C03 is anchored there).  The
/// results are put into the shape of response frames (status, CAS, value, flags) - a conversion, no judgement.
fn exec_cmd_cache(cache: &Arc<dyn memcrs::cache::cache::Cache + Send + Sync>, c: &Cmd, cas: u64) -> (Vec<Value>, bool) {
    use memcrs::cache::cache::{CacheMetaData, Record};
    let key = bytes::Bytes::from(c.key.clone());
    let frame = |st: u16, rcas: u64, v: &[u8], flags: Option<u32>| -> Value {
        let el = if flags.is_some() { 4 } else { 0 };
        let x = flags.map(|f| hex(&f.to_be_bytes())).unwrap_or_default();
        json!({"magic": 129, "op": crate::proto::opcode_of(&c.op, c.q, c.gk), "kl": 0, "el": el, "dt": 0, "st": st,
            "bl": el + v.len(), "al": el + v.len(), "opq": c.opaque.to_string(), "cas": rcas.to_string(), "x": x, "key": "",
            "v": hex(v), "f": flags.map(|f| f.to_string()).unwrap_or_default(), "n": "", "short": 0, "raw": ""})
    };
    let res = catch_unwind(AssertUnwindSafe(|| match c.op.as_str() {
        "get" => match cache.get(&key) {
            Ok(rec) => {
                let (_ts, rcas, flags, _ttl) = rec.verif_parts();
                vec![frame(0, rcas, rec.verif_value(), Some(flags))]
            }
            Err(e) => vec![frame(e as u16, 0, b"error", None)],
        },
        "set" => match cache.set(key.clone(), Record::new(bytes::Bytes::from(c.val.clone()), cas, c.flags, c.ttl)) {
            Ok(st) => vec![frame(0, st.cas, b"", None)],
            Err(e) => vec![frame(e as u16, 0, b"error", None)],
        },
        _ => match cache.delete(key.clone(), CacheMetaData::new(cas, 0, 0)) {
            Ok(_) => vec![frame(0, 0, b"", None)],
            Err(e) => vec![frame(e as u16, 0, b"error", None)],
        },
    }));
    match res {
        Ok(r) => (r, false),
        Err(_) => (Vec::new(), true),
    }
}

fn lit(c: &CasSpec) -> u64 {
    match c {
        CasSpec::Lit(x) => *x,
        _ => 0,
    }
}

/// One execution of `prog` under the schedule `forced` (choice indices at the decision points; beyond its
/// end: choice 0, or random if `rng` is given).
pub fn run_once(prog: &Program, forced: &[usize], rng: &mut Option<SmallRng>, max_steps: usize) -> RunResult {
    run_sched(prog, forced, None, rng, max_steps)
}

/// As `run_once`; with `order` the next step is given to the named client (1-based) whenever that client
/// can move - the replay of a schedule of the MemcConc model.
pub fn run_sched(prog: &Program, forced: &[usize], order: Option<&[usize]>, rng: &mut Option<SmallRng>, max_steps: usize) -> RunResult {
    let sut = Arc::new(Mutex::new(Sut::new(&prog.policy, prog.mem_limit, 1 << 20)));
    // sequential set-up (no worker context: yield points are inert) - on a thread of its own under a watchdog: a
    // set-up command that never returns (a store whose eviction sweep blocks on itself ...) is a run that hangs
    let mut events: Vec<Value> = Vec::new();
    {
        let sut2 = sut.clone();
        let setup = prog.setup.clone();
        let (stx, srx) = channel::<Vec<Value>>();
        std::thread::spawn(move || {
            let mut evs: Vec<Value> = Vec::new();
            let mut s = sut2.lock().unwrap();
            for c in &setup {
                if c.op == "tick" {
                    s.timer.now.store(c.delta, Ordering::SeqCst);
                    evs.push(json!({"e": "tick", "to": c.delta}));
                    continue;
                }
                let fr = frame_of(c, lit(&c.cas));
                let (dec, resp, panicked) = s.exchange(&fr.bytes());
                let mut ev = cmd_event(c, lit(&c.cas), &fr);
                ev["dec"] = json!(dec);
                ev["panic"] = json!(panicked);
                ev["r"] = json!(parse_responses(&resp));
                ev["present"] = json!([]);
                ev["bytes"] = json!(0);
                ev["usage"] = json!("");
                evs.push(ev);
            }
            drop(s);
            let _ = stx.send(evs);
        });
        match srx.recv_timeout(Duration::from_secs(8)) {
            Ok(evs) => events = evs,
            Err(_) => {
                events.push(json!({"e": "final", "outcome": "Hang", "steps": 0, "sched": [], "parked": [], "where": "setup"}));
                return RunResult { outcome: Outcome::Hang, decisions: Vec::new(), events, steps: 0 };
            }
        }
    }
    let (store, mem, timer_now, cache) = {
        let s = sut.lock().unwrap();
        (s.store.clone(), s.mem.clone(), s.timer.now.load(Ordering::SeqCst), s.cache.clone())
    };
    let on_cache = prog.layer == "cache";
    let n = prog.clients.len();
    let (tx, rx) = channel::<Msg>();
    let mut ctls: Vec<Sender<Ctl>> = Vec::new();
    for (w, cmds) in prog.clients.iter().enumerate() {
        let (ctx_tx, ctx_rx) = channel::<Ctl>();
        ctls.push(ctx_tx);
        let tx2 = tx.clone();
        let cmds = cmds.clone();
        let store2 = store.clone();
        let cache2 = cache.clone();
        let timer2 = sut.lock().unwrap().timer.clone();
        std::thread::spawn(move || {
            WORKER.with(|x| *x.borrow_mut() = Some(WorkerCtx { id: w, tx: tx2.clone(), rx: ctx_rx }));
            let handler = BinaryHandler::new(store2);
            for c in &cmds {
                // a scheduling point in front of every command
                WORKER.with(|x| park(x.borrow().as_ref().unwrap(), "cmd.start", None, &never));
                if c.op == "tick" {
                    // the clock as one more client: a second passes at whatever point the scheduler lets it
                    timer2.now.store(c.delta, Ordering::SeqCst);
                    let _ = tx2.send(Msg::Tick { to: c.delta });
                    continue;
                }
                let cas = lit(&c.cas);
                let fr = frame_of(c, cas);
                let _ = tx2.send(Msg::Invoke { w, ev: cmd_event(c, cas, &fr) });
                let (r, panicked) = if on_cache { exec_cmd_cache(&cache2, c, cas) } else { exec_cmd(&handler, 1 << 20, c, cas) };
                let _ = tx2.send(Msg::Return { w, r, panicked });
            }
            let _ = tx2.send(Msg::Done { w });
            WORKER.with(|x| *x.borrow_mut() = None);
        });
    }
    drop(tx);
    // scheduler
    #[derive(Clone, PartialEq)]
    enum St {
        Starting,
        Parked,
        Blocked,
        Running,
        Done,
    }
    let mut st = vec![St::Starting; n];
    let mut site: Vec<(&'static str, Option<Vec<u8>>)> = vec![("", None); n];
    let mut decisions: Vec<(usize, usize)> = Vec::new();
    let mut outcome = Outcome::Complete;
    let mut steps = 0usize;
    let mut seqno = 0u64;
    let timeout = Duration::from_secs(5);
    // wait until every worker has reached its first yield point
    let mut pending_start = n;
    let mut handle = |m: Msg, st: &mut Vec<St>, site: &mut Vec<(&'static str, Option<Vec<u8>>)>, events: &mut Vec<Value>, seqno: &mut u64| match m {
        Msg::AtYield { w, site: s, key } => {
            st[w] = St::Parked;
            site[w] = (s, key);
        }
        Msg::Blocked { w } => st[w] = St::Blocked,
        Msg::Proceeding { w } => st[w] = St::Running,
        Msg::Invoke { w, mut ev } => {
            *seqno += 1;
            ev["e"] = json!("inv");
            ev["c"] = json!(w + 1);
            ev["seq"] = json!(*seqno);
            events.push(ev);
        }
        Msg::Return { w, r, panicked } => {
            *seqno += 1;
            events.push(json!({"e": "ret", "c": w + 1, "seq": *seqno, "r": r, "panic": panicked}));
        }
        Msg::Tick { to } => {
            events.push(json!({"e": "tick", "to": to}));
        }
        Msg::Done { w } => st[w] = St::Done,
    };
    while pending_start > 0 {
        match rx.recv_timeout(timeout) {
            Ok(m) => {
                let was_start = matches!(m, Msg::AtYield { .. } | Msg::Done { .. });
                handle(m, &mut st, &mut site, &mut events, &mut seqno);
                if was_start {
                    pending_start -= 1;
                }
            }
            Err(_) => {
                outcome = Outcome::Hang;
                break;
            }
        }
    }
    let mut sched_log: Vec<Value> = Vec::new();
    while outcome == Outcome::Complete {
        if st.iter().all(|s| *s == St::Done) {
            break;
        }
        // candidates: parked workers (blocked ones become candidates again after somebody else moved)
        let cands: Vec<usize> = (0..n).filter(|w| st[*w] == St::Parked).collect();
        if cands.is_empty() {
            outcome = Outcome::Deadlock; // every live worker waits for a lock held by a parked one
            break;
        }
        let di = decisions.len();
        let wanted = order.and_then(|o| o.get(steps)).and_then(|c| cands.iter().position(|w| w + 1 == *c));
        let choice = if let Some(i) = wanted {
            i
        } else if cands.len() == 1 {
            0
        } else if di < forced.len() {
            std::cmp::min(forced[di], cands.len() - 1)
        } else if let Some(r) = rng.as_mut() {
            r.gen_range(0..cands.len())
        } else {
            0
        };
        if cands.len() > 1 {
            decisions.push((cands.len(), choice));
        }
        let w = cands[choice];
        steps += 1;
        if steps > max_steps {
            outcome = Outcome::Hang; // livelock: commands do not complete
            break;
        }
        let _ = ctls[w].send(Ctl::Go);
        // wait for its answer, then (if it proceeds) for its next yield point / completion
        let mut granted = false;
        loop {
            match rx.recv_timeout(timeout) {
                Ok(m) => {
                    let is_block = matches!(m, Msg::Blocked { .. });
                    let is_proc = matches!(m, Msg::Proceeding { .. });
                    let stops = matches!(m, Msg::AtYield { .. } | Msg::Done { .. });
                    handle(m, &mut st, &mut site, &mut events, &mut seqno);
                    if is_block {
                        break;
                    }
                    if is_proc {
                        granted = true;
                        sched_log.push(json!({"c": w + 1, "site": site[w].0, "k": site[w].1.as_ref().map(|k| hex(k)).unwrap_or_default()}));
                    }
                    if stops && granted {
                        break;
                    }
                }
                Err(RecvTimeoutError::Timeout) => {
                    outcome = Outcome::Hang;
                    break;
                }
                Err(RecvTimeoutError::Disconnected) => {
                    break;
                }
            }
        }
        if granted {
            // somebody moved: blocked workers may try again
            for s in st.iter_mut() {
                if *s == St::Blocked {
                    *s = St::Parked;
                }
            }
        }
    }
    // final observation by a sequential reader (only if the run completed: otherwise locks may be held)
    let mut fin = json!({"e": "final", "outcome": format!("{:?}", outcome), "steps": steps, "sched": sched_log,
        "parked": (0..n).filter(|w| st[*w] != St::Done).map(|w| json!({"c": w + 1, "site": site[w].0})).collect::<Vec<_>>()});
    let _ = timer_now;
    let mut timer_now = sut.lock().unwrap().timer.now.load(Ordering::SeqCst);
    if outcome == Outcome::Complete && prog.post_tick > timer_now {
        // let time pass (delayed flushes, TTLs) before the final reads
        sut.lock().unwrap().timer.now.store(prog.post_tick, Ordering::SeqCst);
        timer_now = prog.post_tick;
        events.push(json!({"e": "tick", "to": prog.post_tick}));
    }
    if outcome == Outcome::Complete {
        let mut snap = mem.verif_snapshot();
        snap.sort_by(|a, b| a.0.cmp(&b.0));
        let mut bytes = 0u64;
        let mut phys = Vec::new();
        for (k, ts, cas, flags, ttl, v) in &snap {
            bytes += 24 + v.len() as u64;
            phys.push(json!({"k": hex(k), "ts": ts, "cas": cas.to_string(), "f": flags.to_string(), "ttl": ttl, "v": hex(v)}));
        }
        fin["phys"] = json!(phys);
        fin["bytes"] = json!(bytes);
        fin["usage"] = json!(sut.lock().unwrap().cache.memory_usage().to_string());
        fin["now"] = json!(timer_now);
        // reads of every key, as ordinary sequential commands
        let handler = BinaryHandler::new(store.clone());
        let gets = final_gets(prog, &handler);
        fin["sig"] = json!(sig_of_events(n, &events, &gets));
        fin["gets"] = json!(gets);
    }
    events.push(fin);
    RunResult { outcome, decisions, events, steps }
}

// ---------------------------------------------------------------------------------------------
// Serial executions of a program on the real crate: the outcomes a concurrent run may be equivalent to

fn resp_sig(r: &[Value]) -> String {
    let mut s = String::from("[");
    for f in r {
        s.push_str(&format!("{}/{}/{}/{}/{}/{};", f["st"], f["key"].as_str().unwrap_or(""), f["v"].as_str().unwrap_or(""),
            f["f"].as_str().unwrap_or(""), f["n"].as_str().unwrap_or(""), f["short"]));
    }
    s.push(']');
    s
}

/// What a client can see of a run: every client's responses in its own order (status, key, value, flags,
/// counter - not the CAS values, which depend on a global counter) and the final reads.
pub fn outcome_sig(per_client: &[Vec<String>], gets: &[Value]) -> String {
    let mut s = String::new();
    for (i, c) in per_client.iter().enumerate() {
        s.push_str(&format!("c{}:{}", i + 1, c.join(",")));
        s.push('|');
    }
    s.push_str("final:");
    for g in gets {
        s.push_str(&resp_sig(g["r"].as_array().map(|a| a.as_slice()).unwrap_or(&[])));
    }
    s
}

fn sig_of_events(n: usize, events: &[Value], gets: &[Value]) -> String {
    let mut per: Vec<Vec<String>> = vec![Vec::new(); n];
    for e in events {
        if e["e"] == "ret" {
            let c = e["c"].as_u64().unwrap_or(1) as usize;
            let part = if e["panic"].as_bool().unwrap_or(false) { "PANIC".to_string() } else { resp_sig(e["r"].as_array().map(|a| a.as_slice()).unwrap_or(&[])) };
            if c >= 1 && c <= n {
                per[c - 1].push(part);
            }
        }
    }
    outcome_sig(&per, gets)
}

fn final_gets(prog: &Program, handler: &BinaryHandler) -> Vec<Value> {
    let mut gets = Vec::new();
    for (i, k) in prog.keys.iter().enumerate() {
        let c = Cmd { op: "get".into(), q: false, gk: false, key: k.clone(), val: vec![], flags: 0, ttl: 0,
            cas: CasSpec::Lit(0), opaque: 900 + i as u32, delta: 0, initial: 0 };
        let fr = frame_of(&c, 0);
        let mut ev = cmd_event(&c, 0, &fr);
        let (r, p) = exec_cmd(handler, 1 << 20, &c, 0);
        ev["r"] = json!(r);
        ev["panic"] = json!(p);
        ev["dec"] = json!("frame");
        ev["present"] = json!([]);
        ev["bytes"] = json!(0);
        ev["usage"] = json!("");
        gets.push(ev);
    }
    gets
}

fn merges(counts: &mut Vec<usize>, cur: &mut Vec<usize>, out: &mut Vec<Vec<usize>>, cap: usize) -> bool {
    if counts.iter().all(|c| *c == 0) {
        out.push(cur.clone());
        return out.len() <= cap;
    }
    for w in 0..counts.len() {
        if counts[w] > 0 {
            counts[w] -= 1;
            cur.push(w);
            let ok = merges(counts, cur, out, cap);
            cur.pop();
            counts[w] += 1;
            if !ok {
                return false;
            }
        }
    }
    true
}

/// Every one-at-a-time order of the program's commands (respecting each client's own order) run on a fresh
/// store: [{"sig": what the clients see, "orders": [[client, client, ...], ...]}].  None if there are more
/// than `cap` orders (or the eviction policy is on: its victims are random).
pub fn serial_outcomes(prog: &Program, cap: usize) -> Option<Vec<Value>> {
    if prog.policy != "none" || prog.clients.iter().any(|cl| cl.iter().any(|c| c.op == "tick")) {
        return None;
    }
    let mut counts: Vec<usize> = prog.clients.iter().map(|c| c.len()).collect();
    let mut orders = Vec::new();
    if !merges(&mut counts, &mut Vec::new(), &mut orders, cap) {
        return None;
    }
    let mut by_sig: Vec<(String, Vec<Vec<usize>>)> = Vec::new();
    for order in orders {
        let mut sut = Sut::new(&prog.policy, prog.mem_limit, 1 << 20);
        for c in &prog.setup {
            if c.op == "tick" {
                sut.timer.now.store(c.delta, Ordering::SeqCst);
                continue;
            }
            let fr = frame_of(c, lit(&c.cas));
            let _ = sut.exchange(&fr.bytes());
        }
        let handler = BinaryHandler::new(sut.store.clone());
        let mut next = vec![0usize; prog.clients.len()];
        let mut per: Vec<Vec<String>> = vec![Vec::new(); prog.clients.len()];
        for w in &order {
            let c = &prog.clients[*w][next[*w]];
            next[*w] += 1;
            let (r, panicked) = if prog.layer == "cache" { exec_cmd_cache(&sut.cache, c, lit(&c.cas)) } else { exec_cmd(&handler, 1 << 20, c, lit(&c.cas)) };
            per[*w].push(if panicked { "PANIC".to_string() } else { resp_sig(&r) });
        }
        if prog.post_tick > sut.timer.now.load(Ordering::SeqCst) {
            sut.timer.now.store(prog.post_tick, Ordering::SeqCst);
        }
        let gets = final_gets(prog, &handler);
        let sig = outcome_sig(&per, &gets);
        let o1: Vec<usize> = order.iter().map(|w| w + 1).collect();
        match by_sig.iter_mut().find(|x| x.0 == sig) {
            Some(x) => x.1.push(o1),
            None => by_sig.push((sig, vec![o1])),
        }
    }
    Some(by_sig.into_iter().map(|(sig, orders)| json!({"sig": sig, "orders": orders})).collect())
}

pub fn program_event(id: usize, p: &Program) -> Value {
    let setup: Vec<Value> = p.setup.iter().map(|c| {
        if c.op == "tick" { json!({"e": "tick", "to": c.delta}) } else {
            let fr = frame_of(c, lit(&c.cas));
            let mut ev = cmd_event(c, lit(&c.cas), &fr);
            ev["e"] = json!("setup");
            ev
        }
    }).collect();
    let mut ev = json!({"e": "cprog", "id": id, "name": p.name, "kind": p.kind, "init": p.init, "policy": p.policy,
        "L": std::cmp::min(p.mem_limit, 1 << 30), "keys": p.keys.iter().map(|k| hex(k)).collect::<Vec<_>>(),
        "setup": setup, "nclients": p.clients.len()});
    // (under a watchdog: a command that never returns when run alone is found by the scheduled runs, which have
    // watchdogs of their own; the stuck thread is abandoned)
    let p2 = p.clone();
    let (tx, rx) = channel::<Option<Vec<Value>>>();
    std::thread::spawn(move || {
        let _ = tx.send(serial_outcomes(&p2, 800));
    });
    match rx.recv_timeout(Duration::from_secs(20)) {
        Ok(Some(ser)) => ev["serial"] = json!(ser),
        Ok(None) => {}
        Err(_) => ev["serial_hang"] = json!(true),
    }
    ev
}

/// Explores the schedules of one program: exhaustively by stateless DFS (up to `max_runs`), then - if the
/// space was not exhausted - `random_runs` seeded random schedules.  Every run is written as a history.
pub fn explore(prog: &Program, id: usize, max_runs: usize, random_runs: usize, seed: u64, out: &mut dyn Write) -> (usize, bool, usize) {
    let mut runs = 0;
    let mut forced: Vec<usize> = Vec::new();
    let mut exhausted = false;
    let mut bad = 0;
    // slack for the C14 bound at quiescence: one record per client (its largest store)
    let slack: usize = prog.clients.iter().map(|cl| cl.iter().map(|c| 24 + c.val.len() + 24).max().unwrap_or(0)).sum();
    let mut seen: std::collections::HashSet<String> = std::collections::HashSet::new();
    let mut distinct = 0usize;
    let mut write_run = |r: &RunResult, runs: usize, forced: &[usize], out: &mut dyn Write| {
        // schedules with the same observable history (events without the schedule log) are written once
        let mut sig = String::new();
        for e in &r.events {
            let mut e2 = e.clone();
            if let Some(o) = e2.as_object_mut() {
                o.remove("sched");
                o.remove("steps");
                o.remove("seq");
            }
            sig.push_str(&e2.to_string());
        }
        if !seen.insert(sig) {
            return;
        }
        distinct += 1;
        writeln!(out, "{}", json!({"e": "crun", "prog": id, "run": runs, "name": prog.name, "kind": prog.kind, "init": prog.init,
            "policy": prog.policy, "L": std::cmp::min(prog.mem_limit, 1 << 30), "slack": slack,
            "keys": prog.keys.iter().map(|k| hex(k)).collect::<Vec<_>>(),
            "sched": forced})).unwrap();
        for e in &r.events {
            writeln!(out, "{}", e).unwrap();
        }
    };
    loop {
        let r = run_once(prog, &forced, &mut None, 400);
        runs += 1;
        write_run(&r, runs, &forced, out);
        if r.outcome != Outcome::Complete {
            bad += 1;
            if r.outcome == Outcome::Hang {
                // threads of this run may be stuck for real: stop exploring this program
                return (runs, false, bad);
            }
        }
        // backtrack: last decision with an untried alternative
        let mut d: Vec<(usize, usize)> = r.decisions.clone();
        while let Some((alts, ch)) = d.pop() {
            if ch + 1 < alts {
                d.push((alts, ch + 1));
                break;
            }
        }
        if d.is_empty() {
            exhausted = true;
            break;
        }
        forced = d.iter().map(|x| x.1).collect();
        if runs >= max_runs {
            break;
        }
    }
    if !exhausted {
        let mut rng = Some(<SmallRng as rand::SeedableRng>::seed_from_u64(seed));
        for _ in 0..random_runs {
            let r = run_once(prog, &[], &mut rng, 400);
            runs += 1;
            let taken: Vec<usize> = r.decisions.iter().map(|d| d.1).collect();
            write_run(&r, runs, &taken, out);
            if r.outcome != Outcome::Complete {
                bad += 1;
                if r.outcome == Outcome::Hang {
                    return (runs, false, bad);
                }
            }
        }
    }
    (runs, exhausted, bad)
}

// ---------------------------------------------------------------------------------------------
// OS-scheduled stress: many threads hammering one key, in barrier-separated rounds

/// One round: the threads run their commands freely (no scheduler); invocation and return events carry a
/// global sequence number drawn before the call starts / after it has returned.
pub fn stress_round(prog: &Program, out: &mut dyn Write, id: usize, round: usize) -> bool {
    use std::sync::atomic::AtomicU64;
    use std::sync::Barrier;
    let mut sut = Sut::new(&prog.policy, prog.mem_limit, 1 << 20);
    let mut events: Vec<Value> = Vec::new();
    for c in &prog.setup {
        if c.op == "tick" {
            sut.timer.now.store(c.delta, Ordering::SeqCst);
            events.push(json!({"e": "tick", "to": c.delta}));
            continue;
        }
        let fr = frame_of(c, lit(&c.cas));
        let (dec, resp, panicked) = sut.exchange(&fr.bytes());
        let mut ev = cmd_event(c, lit(&c.cas), &fr);
        ev["dec"] = json!(dec);
        ev["panic"] = json!(panicked);
        ev["r"] = json!(parse_responses(&resp));
        ev["present"] = json!([]);
        ev["bytes"] = json!(0);
        ev["usage"] = json!("");
        events.push(ev);
    }
    let store = sut.store.clone();
    let n = prog.clients.len();
    let seq = Arc::new(AtomicU64::new(0));
    let log: Arc<Mutex<Vec<(u64, Value)>>> = Arc::new(Mutex::new(Vec::new()));
    let barrier = Arc::new(Barrier::new(n));
    let mut handles = Vec::new();
    for (w, cmds) in prog.clients.iter().enumerate() {
        let cmds = cmds.clone();
        let store2 = store.clone();
        let seq = seq.clone();
        let log = log.clone();
        let barrier = barrier.clone();
        handles.push(std::thread::spawn(move || {
            let handler = BinaryHandler::new(store2);
            let mut mine: Vec<(u64, Value)> = Vec::new();
            barrier.wait();
            for c in &cmds {
                let cas = lit(&c.cas);
                let fr = frame_of(c, cas);
                let mut ev = cmd_event(c, cas, &fr);
                ev["e"] = json!("inv");
                ev["c"] = json!(w + 1);
                let s0 = seq.fetch_add(1, Ordering::SeqCst);
                let (r, panicked) = exec_cmd(&handler, 1 << 20, c, cas);
                let s1 = seq.fetch_add(1, Ordering::SeqCst);
                ev["seq"] = json!(s0);
                mine.push((s0, ev));
                mine.push((s1, json!({"e": "ret", "c": w + 1, "seq": s1, "r": r, "panic": panicked})));
            }
            log.lock().unwrap().extend(mine);
        }));
    }
    // watchdog: a round that does not finish is a hang
    let t0 = std::time::Instant::now();
    let mut done = false;
    while t0.elapsed() < Duration::from_secs(10) {
        if handles.iter().all(|h| h.is_finished()) {
            done = true;
            break;
        }
        std::thread::sleep(Duration::from_millis(1));
    }
    let slack: usize = prog.clients.iter().map(|cl| cl.iter().map(|c| 24 + c.val.len() + 24).max().unwrap_or(0)).sum();
    writeln!(out, "{}", json!({"e": "crun", "prog": id, "run": round, "name": prog.name, "kind": prog.kind, "init": prog.init,
        "policy": prog.policy, "L": std::cmp::min(prog.mem_limit, 1 << 30), "slack": slack,
        "keys": prog.keys.iter().map(|k| hex(k)).collect::<Vec<_>>(), "sched": []})).unwrap();
    if !done {
        for e in &events {
            writeln!(out, "{}", e).unwrap();
        }
        writeln!(out, "{}", json!({"e": "final", "outcome": "Hang", "steps": 0, "sched": [], "parked": []})).unwrap();
        return false;
    }
    for h in handles {
        let _ = h.join();
    }
    let mut l = log.lock().unwrap().clone();
    l.sort_by_key(|x| x.0);
    for (_, e) in l {
        events.push(e);
    }
    if prog.post_tick > sut.timer.now.load(Ordering::SeqCst) {
        sut.timer.now.store(prog.post_tick, Ordering::SeqCst);
        events.push(json!({"e": "tick", "to": prog.post_tick}));
    }
    let mut snap = sut.mem.verif_snapshot();
    snap.sort_by(|a, b| a.0.cmp(&b.0));
    let bytes: u64 = snap.iter().map(|x| 24 + x.5.len() as u64).sum();
    // (the counter is read together with the snapshot: the final reads below collect expired records)
    let usage_now = sut.cache.memory_usage();
    let handler = BinaryHandler::new(store.clone());
    let gets = final_gets(prog, &handler);
    let sig = sig_of_events(n, &events, &gets);
    events.push(json!({"e": "final", "outcome": "Complete", "steps": 0, "sched": [], "parked": [], "bytes": bytes,
        "usage": usage_now.to_string(), "gets": gets, "phys": [], "sig": sig}));
    for e in &events {
        writeln!(out, "{}", e).unwrap();
    }
    true
}

/// OS-thread hammer (C16): `threads` free-running threads issue `ops` commands each (sets on their own keys,
/// every few commands one on a shared key, a delete, a get), then one more thread flushes.  Only completion is
/// judged: the watchdog allows `secs` seconds.
pub fn hammer(threads: usize, ops: usize, secs: u64, policy: &str, mem_limit: u64, out: &mut dyn Write, id: usize) -> bool {
    let sut = Sut::new(policy, mem_limit, 1 << 20);
    let store = sut.store.clone();
    let done = Arc::new(std::sync::atomic::AtomicUsize::new(0));
    let mut handles = Vec::new();
    for w in 0..threads {
        let store2 = store.clone();
        let done = done.clone();
        handles.push(std::thread::spawn(move || {
            let handler = BinaryHandler::new(store2);
            for i in 0..ops {
                let key = if i % 7 == 3 { b"shared".to_vec() } else { format!("h{}-{}", w, i % 50).into_bytes() };
                let mut op = match i % 11 { 5 => "delete", 8 => "get", 9 => "append", 10 => "incr", _ => "set" };
                let mut key = key;
                let mut ttl = 0;
                // several clients flush now and then (immediately / with a delay), so that flushes overlap each other
                // and the single-key commands
                if w % 2 == 0 && i % 61 == 13 {
                    op = "flush";
                    key = vec![];
                    ttl = if i % 2 == 0 { 0 } else { 5 };
                }
                let c = Cmd { op: op.into(), q: false, gk: false, key, val: if op == "flush" { vec![] } else { vec![b'v'; 10 + (i % 40)] }, flags: if op == "flush" { 0 } else { 1 }, ttl,
                    cas: CasSpec::Lit(0), opaque: i as u32, delta: 1, initial: 0 };
                let _ = exec_cmd(&handler, 1 << 20, &c, 0);
            }
            done.fetch_add(1, Ordering::SeqCst);
        }));
    }
    let t0 = std::time::Instant::now();
    let mut ok = false;
    while t0.elapsed() < Duration::from_secs(secs) {
        if done.load(Ordering::SeqCst) == threads {
            ok = true;
            break;
        }
        std::thread::sleep(Duration::from_millis(5));
    }
    let mut flushed = false;
    if ok {
        // a flush from one more client must return as well
        let store3 = store.clone();
        let fdone = Arc::new(std::sync::atomic::AtomicBool::new(false));
        let fd = fdone.clone();
        std::thread::spawn(move || {
            let handler = BinaryHandler::new(store3);
            let c = Cmd { op: "flush".into(), q: false, gk: false, key: vec![], val: vec![], flags: 0, ttl: 0, cas: CasSpec::Lit(0), opaque: 1, delta: 0, initial: 0 };
            let _ = exec_cmd(&handler, 1 << 20, &c, 0);
            fd.store(true, Ordering::SeqCst);
        });
        let t1 = std::time::Instant::now();
        while t1.elapsed() < Duration::from_secs(5) {
            if fdone.load(Ordering::SeqCst) {
                flushed = true;
                break;
            }
            std::thread::sleep(Duration::from_millis(2));
        }
    }
    let outcome = if ok && flushed { "Complete" } else { "Hang" };
    writeln!(out, "{}", json!({"e": "crun", "prog": id, "run": 1, "name": format!("hammer-{}x{}", threads, ops), "kind": "C16", "init": "absent",
        "policy": "random", "L": 1 << 30, "slack": 0, "keys": [], "sched": []})).unwrap();
    let usage = if outcome == "Complete" { sut.cache.memory_usage() } else { 0 };
    writeln!(out, "{}", json!({"e": "final", "outcome": outcome, "steps": threads * ops, "sched": [], "parked": [],
        "bytes": usage, "usage": usage.to_string(), "gets": [], "phys": [], "finished_threads": done.load(Ordering::SeqCst)})).unwrap();
    outcome == "Complete"
}


// ---------------------------------------------------------------------------------------------
// CAS uniqueness under OS-scheduled threads (C02 across keys): every thread owns a key and stores it again and again;
// now and then it tries a conditional store with a CAS that its key has carried before.  The CAS counter is shared by
// all keys: if it ever steps back, a key is handed a CAS it has had before in the same lifetime.

/// Returns one event: per thread the number of acknowledged stores, how many of the acknowledged CAS values the key
/// had carried before, and how many conditional stores with a superseded CAS were accepted.
pub fn cas_uniqueness(threads: usize, ops: usize) -> Value {
    let sut = Sut::new("none", 0, 1 << 20);
    let store = sut.store.clone();
    let barrier = Arc::new(std::sync::Barrier::new(threads));
    let mut handles = Vec::new();
    for w in 0..threads {
        let store2 = store.clone();
        let barrier = barrier.clone();
        handles.push(std::thread::spawn(move || {
            let handler = BinaryHandler::new(store2);
            let key = format!("own{}", w).into_bytes();
            let mut seen: std::collections::HashSet<u64> = std::collections::HashSet::new();
            let (mut acks, mut dups, mut stale_ok, mut unanswered) = (0u64, 0u64, 0u64, 0u64);
            let mut older: u64 = 0;
            barrier.wait();
            for i in 0..ops {
                let stale_try = i % 5 == 4 && older != 0;
                let c = Cmd { op: "set".into(), q: false, gk: false, key: key.clone(), val: vec![b'v'; 1 + (i % 7)], flags: 1, ttl: 0,
                    cas: CasSpec::Lit(if stale_try { older } else { 0 }), opaque: i as u32, delta: 0, initial: 0 };
                let (r, panicked) = exec_cmd(&handler, 1 << 20, &c, if stale_try { older } else { 0 });
                if panicked || r.len() != 1 {
                    unanswered += 1;
                    continue;
                }
                let st = r[0]["st"].as_u64().unwrap_or(999);
                let cas: u64 = r[0]["cas"].as_str().and_then(|x| x.parse().ok()).unwrap_or(0);
                if st == 0 {
                    if stale_try {
                        stale_ok += 1; // `older` was superseded by at least one later store of this key
                    }
                    acks += 1;
                    if !seen.insert(cas) {
                        dups += 1;
                    }
                    if i % 5 == 1 {
                        older = cas; // remembered; at least two more stores follow before it is tried
                    }
                }
            }
            (acks, dups, stale_ok, unanswered)
        }));
    }
    let mut res: Vec<(u64, u64, u64, u64)> = Vec::new();
    for h in handles {
        res.push(h.join().unwrap_or((0, 0, 0, 1)));
    }
    json!({"e": "casuniq", "threads": threads, "ops": ops,
        "acks": res.iter().map(|x| x.0).collect::<Vec<_>>(), "dups": res.iter().map(|x| x.1).collect::<Vec<_>>(),
        "stale_ok": res.iter().map(|x| x.2).collect::<Vec<_>>(), "unanswered": res.iter().map(|x| x.3).collect::<Vec<_>>()})
}
