------------------------------ MODULE ConfigTrace ------------------------------
(***************************************************************************)
(* C20: the same client programs produce the same answers (opcode, status, *)
(* key, value, flags of every response; CAS values aside) under every      *)
(* runtime configuration.  The trace lists, per program, the summary of    *)
(* the answers recorded under each configuration.                          *)
(***************************************************************************)
EXTENDS Naturals, Sequences, TLC, Json, IOUtils
Rec == ndJsonDeserialize(IOEnv.TRACE)
N   == Len(Rec)
VARIABLES l, first, viol, cov
vars == <<l, first, viol, cov>>
Init == l = 1 /\ first = <<>> /\ viol = <<>> /\ cov = 0
Step == /\ l <= N /\ l' = l + 1
        /\ LET e == Rec[l] IN
           IF e.e = "program" THEN first' = <<>> /\ UNCHANGED <<viol, cov>>
           ELSE IF first = <<>> THEN first' = <<e>> /\ cov' = cov + 1 /\ UNCHANGED viol
           ELSE IF first[1].summary = e.summary THEN cov' = cov + 1 /\ UNCHANGED <<first, viol>>
           ELSE /\ viol' = Append(viol, [line |-> l, tags |-> {"C20"}, rule |-> "answers.differ.between.configurations",
                                         a |-> first[1].cfg, b |-> e.cfg])
                /\ UNCHANGED <<first, cov>>
Spec == Init /\ [][Step]_vars
Report == l = N + 1 => PrintT("RESULT " \o ToJson([lines |-> N, violations |-> viol, coverage |-> <<<<"same.answers", cov>>>>, notes |-> <<>>]))
Accepted == TLCGet("stats").diameter - 1 = N
=============================================================================
