----------------------------- MODULE CountTrace -----------------------------
(***************************************************************************)
(* The counting clauses of C04 on a recorded hammer run against the real   *)
(* memcrsd binary (any runtime type, any number of listener / worker       *)
(* threads: C20).  K connections work on the same keys at the same time:   *)
(*                                                                         *)
(*   increments   K * M increments by d of a counter holding `init`:       *)
(*                every one is answered, the answers are K*M distinct      *)
(*                values - exactly init + d, init + 2d, .. init + K*M*d -  *)
(*                increasing on each connection, and the counter ends at   *)
(*                init + K*M*d                                             *)
(*   appends      every acknowledged token (fixed width, distinct) appears *)
(*                exactly once in the final value, a connection's tokens   *)
(*                in the order it sent them, and nothing else appears      *)
(*   adds         of K concurrent adds of an absent key exactly one        *)
(*                succeeds, the others answer "key exists", and the item   *)
(*                holds the winner's value                                 *)
(*   delete       a replace / append racing a delete never resurrects the  *)
(*                item: once the delete is acknowledged and everybody has  *)
(*                returned the key is absent                               *)
(*                                                                         *)
(* This is the abstract counter / log / register that MemcConc's           *)
(* linearizability result implies for these programs, stated directly on   *)
(* what the clients saw.                                                   *)
(***************************************************************************)
EXTENDS Naturals, Sequences, FiniteSets, TLC, Json, IOUtils

Rec == ndJsonDeserialize(IOEnv.TRACE)
N   == Len(Rec)

VARIABLES l, viol, cov
vars == <<l, viol, cov>>
Init == l = 1 /\ viol = <<>> /\ cov = <<>>

Count(c, rule) == IF \E i \in 1..Len(c) : c[i][1] = rule
                  THEN [i \in 1..Len(c) |-> IF c[i][1] = rule THEN <<rule, c[i][2] + 1>> ELSE c[i]]
                  ELSE Append(c, <<rule, 1>>)
SeqRange(q) == {q[i] : i \in 1..Len(q)}
RECURSIVE SumLen(_, _)
SumLen(per, i) == IF i > Len(per) THEN 0 ELSE Len(per[i]) + SumLen(per, i + 1)

(* --- increments ---------------------------------------------------------- *)
IncrBad(e) ==
    LET K == e.conns  M == e.incr_per  tot == K * M
        all == UNION {SeqRange(e.per[c].incr.vals) : c \in 1..K}
    IN IF \E c \in 1..K : ~e.per[c].connected THEN "connection.refused"
       ELSE IF \E c \in 1..K : e.per[c].incr.bad > 0 \/ Len(e.per[c].incr.vals) # M THEN "incr.unanswered"
       ELSE IF \E c \in 1..K : \E i \in 1..(M - 1) : e.per[c].incr.vals[i] >= e.per[c].incr.vals[i + 1] THEN "incr.not.increasing"
       ELSE IF Cardinality(all) # tot THEN "incr.duplicate.value"
       ELSE IF all # {e.init + e.d * i : i \in 1..tot} THEN "incr.wrong.values"
       ELSE IF e.ctr.st # 0 \/ e.ctr.v # ToString(e.init + e.d * tot) THEN "incr.lost.update"
       ELSE ""

(* --- appends ------------------------------------------------------------- *)
W == 6
Chunk(v, i) == SubSeq(v, (i - 1) * W + 1, i * W)
AppendBad(e) ==
    LET K == e.conns
        toks == [c \in 1..K |-> e.per[c].append.tokens]
        total == SumLen(toks, 1)
        v == e.app.v
        n == Len(v) \div W
        chunks == [i \in 1..n |-> Chunk(v, i)]
        Pos(t) == CHOOSE i \in 1..n : chunks[i] = t
    IN IF \E c \in 1..K : e.per[c].append.bad > 0 THEN "append.unanswered"
       ELSE IF e.app.st # 0 \/ Len(v) # W * total THEN "append.lost.or.extra"
       ELSE IF \E c \in 1..K : \E t \in SeqRange(toks[c]) : Cardinality({i \in 1..n : chunks[i] = t}) # 1 THEN "append.token.not.once"
       ELSE IF \E c \in 1..K : \E i \in 1..(Len(toks[c]) - 1) : Pos(toks[c][i]) > Pos(toks[c][i + 1]) THEN "append.order"
       ELSE ""

(* --- adds ---------------------------------------------------------------- *)
AddBad(e) ==
    LET K == e.conns
        Won(r) == {c \in 1..K : e.per[c].add[r] = 0}
    IN IF \E r \in 1..e.rounds : \E c \in 1..K : e.per[c].add[r] \notin {0, 2} THEN "add.unanswered"
       ELSE IF \E r \in 1..e.rounds : Cardinality(Won(r)) # 1 THEN "add.not.exactly.one"
       ELSE IF \E r \in 1..e.rounds : LET w == CHOOSE c \in Won(r) : TRUE IN
                                       e.add_fin[r].st # 0 \/ e.add_fin[r].v # ("c" \o ToString(w - 1)) THEN "add.winner.lost"
       ELSE ""

(* --- delete against replace / append -------------------------------------- *)
DelBad(e) ==
    LET K == e.conns IN
    IF \E r \in 1..e.del_rounds : \E c \in 1..K : e.per[c].del[r] \notin {0, 1} THEN "delete.race.unanswered"
    ELSE IF \E r \in 1..e.del_rounds : e.per[1].del[r] # 0 THEN "delete.refused"
    ELSE IF \E r \in 1..e.del_rounds : e.del_fin[r] # 1 THEN "delete.resurrected"
    ELSE ""

Judge(e) == IF ~e.alive THEN <<"server.died">>
            ELSE SelectSeq(<<IncrBad(e), AppendBad(e), AddBad(e), DelBad(e)>>, LAMBDA x : x # "")

(* --- the configured memory limit (C14, C15) -------------------------------- *)
(* far more than the limit was offered in records of at most maxrec bytes: what is still stored is at most the limit   *)
(* plus the record just written, and - eviction stops as soon as the store fits - not much less than the limit         *)
MemBad(e) == IF ~e.alive THEN "server.died"
             ELSE IF e.bad > 0 THEN "memprobe.store.or.value.wrong"
             ELSE IF e.offered < 3 * e.limit THEN ""                       \* (not enough pressure to tell)
             ELSE IF e.stored > e.limit + e.maxrec THEN "memory.limit.not.enforced"
             ELSE IF e.stored + 2 * e.maxrec < e.limit THEN "evicted.far.below.the.limit"
             ELSE ""

(* --- CAS uniqueness across keys (C02) --------------------------------------- *)
(* every thread owns a key; the CAS counter is shared: no acknowledged CAS is one the key has carried before, and a    *)
(* conditional store with a CAS that later stores of the key have superseded is never accepted                          *)
CasBad(e) == IF \E i \in 1..e.threads : e.unanswered[i] > 0 THEN "casuniq.unanswered"
             ELSE IF \E i \in 1..e.threads : e.dups[i] > 0 THEN "cas.reissued.within.a.lifetime"
             ELSE IF \E i \in 1..e.threads : e.stale_ok[i] > 0 THEN "stale.cas.accepted"
             ELSE IF \E i \in 1..e.threads : e.acks[i] = 0 THEN "casuniq.nothing.acknowledged"
             ELSE ""

Step ==
    /\ l <= N /\ l' = l + 1
    /\ LET e == Rec[l] IN
       IF e.e = "casuniq" THEN
            IF CasBad(e) # "" THEN viol' = Append(viol, [line |-> l, tags |-> {"C02", "C03"}, rule |-> CasBad(e)]) /\ UNCHANGED cov
            ELSE cov' = Count(cov, "cas.unique.across.keys") /\ UNCHANGED viol
       ELSE IF e.e = "memprobe" THEN
            IF MemBad(e) # "" THEN viol' = Append(viol, [line |-> l, tags |-> {"C14", "C15", "C20"}, rule |-> MemBad(e)]) /\ UNCHANGED cov
            ELSE cov' = Count(cov, "memory.limit.enforced") /\ UNCHANGED viol
       ELSE IF e.e # "hammer" THEN UNCHANGED <<viol, cov>>
       ELSE LET j == Judge(e) IN
            IF j # <<>> THEN viol' = viol \o [i \in 1..Len(j) |-> [line |-> l, tags |-> {"C04", "C20"}, rule |-> j[i]]] /\ UNCHANGED cov
            ELSE cov' = Count(Count(Count(Count(cov, "incr.exact"), "append.all.once"), "add.exactly.one"), "delete.final") /\ UNCHANGED viol

Next == Step
Spec == Init /\ [][Next]_vars
Report == l = N + 1 => PrintT("RESULT " \o ToJson([lines |-> N, violations |-> viol, coverage |-> cov, notes |-> <<>>]))
Accepted == TLCGet("stats").diameter - 1 = N
=============================================================================
