CONSTANTS
  Clients = {1, 2}
  Keys = {"a", "b", "c"}
  Sizes = {25, 40}
  InitSizes = {0, 30}
  Limit = 50
SPECIFICATION Spec
INVARIANT TypeOK
INVARIANT NotOwnRecord
INVARIANT Quiescent
PROPERTY Termination
