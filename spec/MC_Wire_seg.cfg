CONSTANTS
  H = 2
  Limit = 2
  Cap0 = 4
  Alphabet <- AlphaSeg
  MaxFrames = 3
  Cuts = FALSE
SPECIFICATION Spec
INVARIANT Aligned
INVARIANT SafePrefix
INVARIANT Final
INVARIANT NeverExecInvalid
INVARIANT BufBound
INVARIANT QuitFinal
PROPERTY Terminates
VIEW View
CHECK_DEADLOCK FALSE
