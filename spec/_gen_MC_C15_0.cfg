CONSTANTS
  MaxU = "9"
  Keys = {"6b31", "6b32"}
  Vals = {"", "6161"}
  FlagVals = {"0"}
  Ttls = {0, 1}
  CasVals = {"0", "1"}
  Deltas = {"1"}
  Inits = {"5"}
  Quiets = {FALSE}
  Ops = {"get", "set", "add", "replace", "append", "incr", "delete", "flush"}
  TickTo = {1, 2}
  Policy = "random"
  MemLimit = 1000
  ItemLimit = 64
  MaxSteps = 4
  Emit = FALSE
  Randomised = FALSE
SPECIFICATION Spec
INVARIANT Refines
INVARIANT Accounting
INVARIANT EmptyZero
INVARIANT Bound
CONSTRAINT Bounded
CHECK_DEADLOCK FALSE
VIEW View
