------------------------------ MODULE MC_Conc ------------------------------
EXTENDS MemcConc, Json
(* command constructors (same record shape as MC_Store!Mk) *)
C(op, v, cas, opq) == [op |-> op, q |-> FALSE, gk |-> FALSE,
                       opc |-> CASE op = "get" -> 0 [] op = "set" -> 1 [] op = "add" -> 2 [] op = "replace" -> 3 [] op = "delete" -> 4
                                 [] op = "incr" -> 5 [] op = "decr" -> 6 [] op = "append" -> 14 [] OTHER -> 15,
                       k |-> K, v |-> v, f |-> "9", ttl |-> 0, ttls |-> "0", cas |-> cas, opq |-> opq, d |-> "1", i |-> "10",
                       bl |-> 2]
(* vocabulary of client w (values distinct per client, numeric so that counters apply) *)
Cttl(op, v, cas, opq, t) == [C(op, v, cas, opq) EXCEPT !.ttl = t, !.ttls = NatToStr(t)]
V03(w) == { C("get", "", "0", "1"), Cttl("set", IF w = 1 THEN "37" ELSE IF w = 2 THEN "38" ELSE "39", "0", "15", 3), C("set", IF w = 1 THEN "37" ELSE IF w = 2 THEN "38" ELSE "39", "0", "2"),
            C("set", IF w = 1 THEN "37" ELSE IF w = 2 THEN "38" ELSE "39", "1", "3"),
            C("set", IF w = 1 THEN "37" ELSE IF w = 2 THEN "38" ELSE "39", "77", "4"),
            C("delete", "", "0", "5"), C("delete", "", "1", "6") }
V04(w) == { C("add", IF w = 1 THEN "37" ELSE IF w = 2 THEN "38" ELSE "39", "0", "7"),
            Cttl("add", IF w = 1 THEN "37" ELSE IF w = 2 THEN "38" ELSE "39", "0", "16", 3),
            C("replace", IF w = 1 THEN "37" ELSE IF w = 2 THEN "38" ELSE "39", "0", "8"),
            C("append", IF w = 1 THEN "3c313e" ELSE IF w = 2 THEN "3c323e" ELSE "3c333e", "0", "9"),
            C("prepend", IF w = 1 THEN "3c313e" ELSE IF w = 2 THEN "3c323e" ELSE "3c333e", "0", "10"),
            C("incr", "", "0", "11"), C("decr", "", "0", "12"), C("incr", "", "1", "13"),
            C("append", IF w = 1 THEN "3c313e" ELSE IF w = 2 THEN "3c323e" ELSE "3c333e", "1", "14") }
(* C08: deletes and flushes (immediate / delayed) against everything that rewrites a record *)
Fl(delay, opq) == [C("flush", "", "0", opq) EXCEPT !.opc = 8, !.ttl = delay, !.ttls = NatToStr(delay), !.bl = IF delay > 0 THEN 4 ELSE 0]
V08d(w) == { C("delete", "", "0", "5"), C("delete", "", "1", "6"), Fl(0, "17"), Fl(2, "18") }
V08r(w) == { C("get", "", "0", "1"), C("set", IF w = 1 THEN "37" ELSE "38", "0", "2"), Cttl("set", IF w = 1 THEN "37" ELSE "38", "0", "15", 3),
             C("add", IF w = 1 THEN "37" ELSE "38", "0", "7"), C("replace", IF w = 1 THEN "37" ELSE "38", "0", "8"),
             C("append", IF w = 1 THEN "3c313e" ELSE "3c323e", "0", "9"), C("prepend", IF w = 1 THEN "3c313e" ELSE "3c323e", "0", "10"),
             C("incr", "", "0", "11"), C("set", IF w = 1 THEN "37" ELSE "38", "1", "3") }
Progs08_2 == {[w \in {1, 2} |-> IF w = 1 THEN a ELSE b] : a \in V08d(1), b \in V08d(2) \cup V08r(2)}
(* C19: quiet commands against each other and against loud ones *)
Q(cmd, opc) == [cmd EXCEPT !.q = TRUE, !.opc = opc]
V19q(w) == { Q(C("get", "", "0", "21"), 9), [Q(C("get", "", "0", "22"), 13) EXCEPT !.gk = TRUE],
             Q(C("set", IF w = 1 THEN "37" ELSE "38", "0", "23"), 17), Q(C("add", IF w = 1 THEN "37" ELSE "38", "0", "24"), 18),
             Q(C("replace", IF w = 1 THEN "37" ELSE "38", "0", "25"), 19), Q(C("append", IF w = 1 THEN "3c313e" ELSE "3c323e", "0", "26"), 25),
             Q(C("incr", "", "0", "27"), 21), Q(C("delete", "", "0", "28"), 20), Q(Fl(0, "29"), 24) }
V19l(w) == { C("get", "", "0", "1"), Cttl("set", IF w = 1 THEN "37" ELSE "38", "0", "15", 3), C("delete", "", "0", "5"), Fl(0, "17") }
Progs19_2 == {[w \in {1, 2} |-> IF w = 1 THEN a ELSE b] : a \in V19q(1), b \in V19q(2) \cup V19l(2)}
Progs03_2 == {[w \in {1, 2} |-> IF w = 1 THEN a ELSE b] : a \in V03(1), b \in V03(2)}
Progs04_2 == {[w \in {1, 2} |-> IF w = 1 THEN a ELSE b] : a \in V03(1) \cup V04(1), b \in V04(2)}
Progs03_3 == {[w \in {1, 2, 3} |-> IF w = 1 THEN a ELSE IF w = 2 THEN b ELSE c] : a \in V03(1), b \in V03(2), c \in V03(3)}
Progs04_3 == {[w \in {1, 2, 3} |-> IF w = 1 THEN a ELSE IF w = 2 THEN b ELSE c] : a \in V04(1), b \in V04(2), c \in V03(3) \cup V04(3)}

EmitSched == AllDone => PrintT("SCHED " \o ToJson([init |-> init, prog |-> [c \in Clients |-> prog[c]], sched |-> sched,
                                                   resp |-> [c \in Clients |-> [i \in 1..Len(resp[c]) |-> resp[c][i].st]],
                                                   final |-> [p |-> rec.p, v |-> rec.val]]))
View == <<prog, init, rec, ctr, klock, shard, pc, loc, resp, usage, now>>
(* accounting under races with the clock: a lookup (lazy collection), a store of another size, and a second passing at any point *)
Tk(t) == [C("tick", "", "0", "90") EXCEPT !.ttl = t, !.ttls = NatToStr(t)]
VLook == { C("get", "", "0", "1"), C("add", "37", "0", "7"), C("replace", "37", "0", "8"), C("incr", "", "0", "11"), C("append", "3c313e", "0", "9") }
VWrite == { Cttl("set", "3838383838", "0", "15", 1), C("set", "38", "0", "2"), Cttl("add", "38", "0", "16", 1), C("delete", "", "0", "5"), C("get", "", "0", "21") }
ProgsClock == {[w \in {1, 2, 3} |-> IF w = 1 THEN a ELSE IF w = 2 THEN b ELSE t] : a \in VLook, b \in VWrite, t \in {Tk(6), Tk(7)}}
=============================================================================
