//! Fault containment driver (C18): a connection that stops, closes, resets or turns to garbage at a byte
//! offset of its request stream, with a second connection observing the store.
use crate::proto::{hex, parse_responses, Frame};
use crate::tcp::{self, Client, Server};
use rand::rngs::SmallRng;
use rand::Rng;
use serde_json::{json, Value};
use std::io::Write;
use std::net::Shutdown;
use std::time::Duration;

pub struct FStream {
    pub frames: Vec<Frame>,
    pub meta: Vec<Value>,
}

const KEY_A: &[u8] = b"fa";
const KEY_C: &[u8] = b"fc";

pub fn gen_fstream(rng: &mut SmallRng) -> FStream {
    let mut frames = Vec::new();
    let mut meta = Vec::new();
    let mut opq = 100u32;
    let mut push = |f: Frame, kind: &str, tok: &[u8], frames: &mut Vec<Frame>, meta: &mut Vec<Value>| {
        meta.push(json!({"kind": kind, "tok": hex(tok), "len": 24 + f.body.len(), "opq": f.opaque.to_string(), "op": f.opcode}));
        frames.push(f);
    };
    // the item the appends go to
    push(Frame::consistent(0x01, &[0, 0, 0, 1, 0, 0, 0, 0], KEY_A, b"S", opq, 0), "set", b"S", &mut frames, &mut meta);
    let n = rng.gen_range(3..=7);
    for i in 0..n {
        opq += 1;
        match rng.gen_range(0..10) {
            0..=4 => {
                let tok = format!("<{}{}>", i, (b'a' + (i as u8 % 26)) as char).into_bytes();
                let quiet = rng.gen_bool(0.7);
                push(Frame::consistent(if quiet { 0x19 } else { 0x0e }, &[], KEY_A, &tok, opq, 0), "append", &tok, &mut frames, &mut meta);
            }
            5 | 6 => {
                let mut ex = Vec::new();
                ex.extend_from_slice(&1u64.to_be_bytes());
                ex.extend_from_slice(&1u64.to_be_bytes());
                ex.extend_from_slice(&0u32.to_be_bytes());
                let quiet = rng.gen_bool(0.7);
                push(Frame::consistent(if quiet { 0x15 } else { 0x05 }, &ex, KEY_C, &[], opq, 0), "incr", b"", &mut frames, &mut meta);
            }
            7 => push(Frame::consistent(0x0a, &[], &[], &[], opq, 0), "other", b"", &mut frames, &mut meta),
            8 => push(Frame::consistent(0x00, &[], KEY_A, &[], opq, 0), "other", b"", &mut frames, &mut meta),
            _ => {
                let v: Vec<u8> = (0..rng.gen_range(0..40)).map(|_| rng.gen()).collect();
                push(Frame::consistent(0x01, &[0u8; 8], format!("fb{}", i).as_bytes(), &v, opq, 0), "other", b"", &mut frames, &mut meta);
            }
        }
    }
    FStream { frames, meta }
}

fn observe(o: &mut Client, opq: u32) -> (String, String, bool) {
    // get A, get C, noop in one go
    let mut b = Frame::consistent(0x00, &[], KEY_A, &[], opq, 0).bytes();
    b.extend_from_slice(&Frame::consistent(0x00, &[], KEY_C, &[], opq + 1, 0).bytes());
    b.extend_from_slice(&Frame::consistent(0x0a, &[], &[], &[], opq + 2, 0).bytes());
    use std::io::Write as W;
    if o.s.write_all(&b).is_err() {
        return ("dead".into(), "dead".into(), false);
    }
    let (resp, how) = o.read_until(Duration::from_millis(6000), &|x| tcp::has_opaque(x, opq + 2));
    let rs = parse_responses(&resp);
    let val = |q: u32| -> String {
        for r in &rs {
            if r["opq"].as_str() == Some(&q.to_string()) {
                return if r["st"].as_u64() == Some(0) { r["v"].as_str().unwrap_or("").to_string() } else { "miss".to_string() };
            }
        }
        "none".to_string()
    };
    (val(opq), val(opq + 1), how == "done")
}

pub const KINDS: [&str; 5] = ["close", "halfclose", "reset", "corrupt", "silence"];

pub fn run_fault(srv: &Server, fs: &FStream, bytes: &[u8], cut: usize, kind: &str, rng: &mut SmallRng, out: &mut dyn Write) {
    tcp::reset_store(srv);
    tcp::HOOK_LOG.lock().unwrap().clear();
    // a server that no longer accepts is data, not a harness failure
    let (mut o, mut f) = match (Client::connect(srv.port), Client::connect(srv.port)) {
        (Ok(o), Ok(f)) => (o, f),
        _ => {
            writeln!(out, "{}", json!({"e": "fault", "kind": kind, "cut": cut, "obs": [], "a1": "dead", "c1": "dead", "a": "dead", "c": "dead",
                "alive": false, "fresh": false, "fhow": "noconnect", "fopq": [], "fst": []})).unwrap();
            return;
        }
    };
    let fport = f.port;
    let mut obs: Vec<Value> = Vec::new();
    let mut oq = 5000u32;
    // deliver the prefix in 1..3 chunks, the observer looks in between
    let nchunks = rng.gen_range(1..=3);
    let mut pts: Vec<usize> = (0..nchunks - 1).map(|_| rng.gen_range(0..=cut)).collect();
    pts.push(cut);
    pts.sort();
    let mut at = 0;
    for p in pts {
        if p > at {
            f.send_chunk(&bytes[at..p], Duration::from_millis(60));
            at = p;
            if rng.gen_bool(0.5) {
                oq += 10;
                let (a, c, _) = observe(&mut o, oq);
                obs.push(json!({"sent": at, "a": a, "c": c}));
            }
        }
    }
    let mut fresp: Vec<u8> = Vec::new();
    let mut fhow = "n/a";
    match kind {
        "close" => {
            let _ = f.s.shutdown(Shutdown::Both);
        }
        "halfclose" => {
            let _ = f.s.shutdown(Shutdown::Write);
            let (b, h) = f.read_until(Duration::from_millis(6000), &|_| false);
            fresp = b;
            fhow = h;
        }
        "reset" => {
            let sock = socket2::SockRef::from(&f.s);
            let _ = sock.set_linger(Some(Duration::from_secs(0)));
            drop(f);
            // (placeholder so that `f` stays valid; if the server is gone the final observation will say so)
            if let Ok(n) = Client::connect(srv.port) {
                f = n;
                let _ = f.s.shutdown(Shutdown::Both);
            } else {
                writeln!(out, "{}", json!({"e": "fault", "kind": kind, "cut": cut, "obs": obs, "a1": "dead", "c1": "dead", "a": "dead", "c": "dead",
                    "alive": false, "fresh": false, "fhow": "noconnect", "fopq": [], "fst": []})).unwrap();
                return;
            }
        }
        "corrupt" => {
            // garbage instead of the rest of the stream: an invalid header
            use std::io::Write as W;
            let _ = f.s.write_all(&[0xffu8; 24]);
            let (b, h) = f.read_until(Duration::from_millis(6000), &|_| false);
            fresp = b;
            fhow = h;
        }
        _ => {
            // silence: the connection stays open and says nothing more
            std::thread::sleep(Duration::from_millis(120));
        }
    }
    // The final observations are taken when the server is done with the faulty connection - not a fixed delay later (a
    // loaded machine may give the connection's task its turn late).  A connection the server ends (every kind but silence)
    // returns its permit: wait for that hook event.  A silent connection stays open: read until three observations in a
    // row, 150 ms apart, agree.
    if kind != "silence" {
        let t0 = std::time::Instant::now();
        while t0.elapsed() < Duration::from_millis(6000) {
            if tcp::hook_snapshot().iter().any(|e| e.site == "sem.release" && e.nums[0] == fport as u64) {
                break;
            }
            std::thread::sleep(Duration::from_millis(5));
        }
    }
    std::thread::sleep(Duration::from_millis(40));
    oq += 10;
    let (mut a1, mut c1, _) = observe(&mut o, oq);
    if kind == "silence" {
        let mut same = 0;
        let t0 = std::time::Instant::now();
        while same < 2 && t0.elapsed() < Duration::from_millis(5000) {
            std::thread::sleep(Duration::from_millis(150));
            oq += 10;
            let (a, c, _) = observe(&mut o, oq);
            if a == a1 && c == c1 { same += 1; } else { same = 0; a1 = a; c1 = c; }
        }
    }
    std::thread::sleep(Duration::from_millis(60));
    oq += 10;
    let (a2, c2, alive) = observe(&mut o, oq);
    // a fresh connection is still served
    let fresh = match Client::connect(srv.port) {
        Ok(mut n) => {
            let (_, _, ok) = observe(&mut n, 9000);
            let _ = n.s.shutdown(Shutdown::Both);
            ok
        }
        Err(_) => false,
    };
    if kind == "silence" {
        let _ = f.s.shutdown(Shutdown::Both);
    }
    let _ = o.s.shutdown(Shutdown::Both);
    let frs = parse_responses(&fresp);
    writeln!(out, "{}", json!({"e": "fault", "kind": kind, "cut": cut, "obs": obs, "a1": a1, "c1": c1, "a": a2, "c": c2,
        "alive": alive, "fresh": fresh, "fhow": fhow,
        "fopq": frs.iter().map(|r| r["opq"].as_str().unwrap_or("").to_string()).collect::<Vec<_>>(),
        "fst": frs.iter().map(|r| r["st"].as_u64().unwrap_or(999)).collect::<Vec<_>>()})).unwrap();
    let _ = fs;
}

pub fn fstream_event(id: usize, fs: &FStream, len: usize) -> Value {
    json!({"e": "fstream", "id": id, "len": len, "frames": fs.meta})
}


/// Fault with a bulky unread answer (C18): the faulty client stores a large value, pipelines a quiet store, a get of
/// the large value and an invalid header, and never reads (small receive buffer, so the answer sits unsent in the
/// server's socket when it closes the connection).  The observer and a fresh connection must still be served promptly;
/// what the faulty connection completely sent before the invalid header is executed.
pub fn run_bulky(srv: &Server, out: &mut dyn Write) {
    use std::io::Write as W;
    use std::net::SocketAddr;
    tcp::reset_store(srv);
    let mut o = match Client::connect(srv.port) {
        Ok(o) => o,
        Err(_) => {
            writeln!(out, "{}", json!({"e": "bulky", "alive": false, "fresh": false, "done": "dead", "waited_ms": 0})).unwrap();
            return;
        }
    };
    let sock = socket2::Socket::new(socket2::Domain::IPV4, socket2::Type::STREAM, None).unwrap();
    let _ = sock.set_recv_buffer_size(4096);
    let addr: SocketAddr = format!("127.0.0.1:{}", srv.port).parse().unwrap();
    if sock.connect(&addr.into()).is_err() {
        writeln!(out, "{}", json!({"e": "bulky", "alive": false, "fresh": false, "done": "dead", "waited_ms": 0})).unwrap();
        return;
    }
    let mut f: std::net::TcpStream = sock.into();
    let _ = f.set_nodelay(true);
    let big = vec![b'B'; 256 * 1024];
    let mut bytes = Frame::consistent(0x01, &[0u8; 8], b"bulk", &big, 1, 0).bytes();
    bytes.extend_from_slice(&Frame::consistent(0x11, &[0u8; 8], b"done", b"yes", 2, 0).bytes());
    for i in 0..4 {
        bytes.extend_from_slice(&Frame::consistent(0x00, &[], b"bulk", &[], 10 + i, 0).bytes());
    }
    bytes.extend_from_slice(&[0xffu8; 24]);
    let _ = f.write_all(&bytes);
    // give the server time to work through the pipeline and hit the invalid header
    std::thread::sleep(Duration::from_millis(300));
    let t0 = std::time::Instant::now();
    // the observer asks for the quiet store of the faulty connection
    let mut b = Frame::consistent(0x00, &[], b"done", &[], 7001, 0).bytes();
    b.extend_from_slice(&Frame::consistent(0x0a, &[], &[], &[], 7002, 0).bytes());
    let _ = o.s.write_all(&b);
    let (resp, how) = o.read_until(Duration::from_millis(6000), &|x| tcp::has_opaque(x, 7002));
    let waited = t0.elapsed().as_millis() as u64;
    let rs = parse_responses(&resp);
    let done = rs.iter().find(|r| r["opq"].as_str() == Some("7001")).map(|r| if r["st"].as_u64() == Some(0) { r["v"].as_str().unwrap_or("").to_string() } else { "miss".to_string() }).unwrap_or("none".to_string());
    let fresh = match Client::connect(srv.port) {
        Ok(mut n) => {
            let _ = n.s.write_all(&Frame::consistent(0x0a, &[], &[], &[], 7003, 0).bytes());
            let (_r, h) = n.read_until(Duration::from_millis(6000), &|x| tcp::has_opaque(x, 7003));
            let _ = n.s.shutdown(Shutdown::Both);
            h == "done"
        }
        Err(_) => false,
    };
    drop(f);
    let _ = o.s.shutdown(Shutdown::Both);
    writeln!(out, "{}", json!({"e": "bulky", "alive": how == "done", "fresh": fresh, "done": done, "waited_ms": waited})).unwrap();
}


/// Truncated body followed by silence (C18), as many times as the server has slots: every faulty client writes a complete
/// quiet store and the beginning of another request in ONE write and then says nothing more, keeping its socket open.  The
/// complete request is executed, the torn one is not, and once the receive timeout has passed the server serves others
/// again (the silent connections are ended like any idle one).  `limit` = connection limit, `timeout` = receive timeout (s).
pub fn run_silent_hogs(port: u16, limit: usize, timeout: u64, out: &mut dyn Write) {
    use std::io::Write as W;
    let mut hogs: Vec<Client> = Vec::new();
    for i in 0..limit {
        if let Ok(mut c) = Client::connect(port) {
            let mut b = Frame::consistent(0x11, &[0u8; 8], format!("hogdone{}", i).as_bytes(), b"yes", 2, 0).bytes();
            let torn = Frame::consistent(0x01, &[0u8; 8], format!("hogtorn{}", i).as_bytes(), &[b'T'; 40], 3, 0).bytes();
            b.extend_from_slice(&torn[..torn.len() - 5]);
            let _ = c.s.write_all(&b);
            hogs.push(c);
        }
    }
    // the silent clients hold every slot; after the timeout (plus a margin) they must be gone
    std::thread::sleep(Duration::from_millis(timeout * 1000 + 1500));
    let t0 = std::time::Instant::now();
    let mut served = false;
    let mut done = "none".to_string();
    let mut torn = "none".to_string();
    if let Ok(mut o) = Client::connect(port) {
        let mut b = Frame::consistent(0x00, &[], b"hogdone0", &[], 7001, 0).bytes();
        b.extend_from_slice(&Frame::consistent(0x00, &[], b"hogtorn0", &[], 7002, 0).bytes());
        b.extend_from_slice(&Frame::consistent(0x0a, &[], &[], &[], 7003, 0).bytes());
        let _ = o.s.write_all(&b);
        let (resp, how) = o.read_until(Duration::from_millis(6000), &|x| tcp::has_opaque(x, 7003));
        served = how == "done";
        let rs = parse_responses(&resp);
        let val = |q: &str| rs.iter().find(|r| r["opq"].as_str() == Some(q)).map(|r| if r["st"].as_u64() == Some(0) { r["v"].as_str().unwrap_or("").to_string() } else { "miss".to_string() }).unwrap_or("none".to_string());
        done = val("7001");
        torn = val("7002");
        let _ = o.s.shutdown(Shutdown::Both);
    }
    let waited = t0.elapsed().as_millis() as u64;
    // have the silent connections been closed by the server?
    let mut closed = 0;
    for h in hogs.iter_mut() {
        let (_b, how) = h.read_until(Duration::from_millis(300), &|_| false);
        if how == "eof" || how == "reset" {
            closed += 1;
        }
        let _ = h.s.shutdown(Shutdown::Both);
    }
    writeln!(out, "{}", json!({"e": "hogs", "n": limit, "served": served, "done": done, "torn": torn, "closed": closed, "waited_ms": waited})).unwrap();
}
