------------------------------ MODULE MC_Wire ------------------------------
EXTENDS Wire, Json
(* frame alphabets for the bounded exhaustive runs *)
Fr(kind, q, ans, bl) == [kind |-> kind, q |-> q, ans |-> ans, bl |-> bl]
AlphaSmall ==
    { Fr("canon", FALSE, TRUE, 0), Fr("canon", FALSE, TRUE, 1), Fr("canon", FALSE, TRUE, 2),
      Fr("canon", TRUE, FALSE, 1), Fr("canon", TRUE, TRUE, 1),
      Fr("quit", FALSE, TRUE, 0), Fr("quit", TRUE, FALSE, 0),
      Fr("unimpl", FALSE, TRUE, 1), Fr("unimpl", TRUE, TRUE, 2),
      Fr("odd", FALSE, FALSE, 1), Fr("badbody", FALSE, FALSE, 2), Fr("badhdr", FALSE, FALSE, 0), Fr("badhdr", FALSE, FALSE, 1),
      Fr("over", FALSE, TRUE, 3), Fr("over", FALSE, TRUE, 5) }
AlphaSeg ==      \* C09/C13: no cuts by the client closing, larger bodies
    { Fr("canon", FALSE, TRUE, 0), Fr("canon", FALSE, TRUE, 2), Fr("canon", TRUE, FALSE, 1),
      Fr("unimpl", FALSE, TRUE, 1), Fr("odd", FALSE, FALSE, 1), Fr("badhdr", FALSE, FALSE, 1),
      Fr("over", FALSE, TRUE, 3), Fr("over", TRUE, TRUE, 4), Fr("over", FALSE, TRUE, 7), Fr("quit", FALSE, TRUE, 0) }

(* GEN: one line per finished behaviour: the stream, the cut, the server's read sizes *)
EmitCase == (eof /\ closed) =>
    PrintT("CASE " \o ToJson([frames |-> st, cut |-> cutAt, reads |-> reads, h |-> H, limit |-> Limit,
                              exec |-> exec, resp |-> resp]))
View == <<st, cutAt, sent, eof, sock, buf, cap, pos, cur, dstate, skip, closed, exec, resp>>
=============================================================================
