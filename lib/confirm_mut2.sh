#!/bin/bash
# confirm_mut2.sh <ID> <demo .rs file name in mutant/ (without .rs)> [extra cargo test args after --]
# like confirm_mut.sh, but the demo lives in mutant/ and is copied into memcrs/tests for the runs
ID=$1; DEMO=$2; shift 2; W=/tmp/${MUTROOT:-mut}/$ID
cd $W || exit 2
rm -rf $W/memcrs/tests
git checkout -q -- memcrs/src memcrs/Cargo.toml 2>/dev/null
git apply mutant/patch.diff || { echo "PATCH DOES NOT APPLY"; exit 1; }
echo "--- builds"
cargo build --offline -p memcrs --target-dir $W/target 2>&1 | grep -E "^error|Finished" | head -2
RUSTFLAGS="--cfg memcrs_verif" cargo build --offline -p memcrs --target-dir $W/target-v 2>&1 | grep -E "^error|Finished" | head -2
echo "--- 92 tests with the change"
cargo test --workspace --offline --target-dir $W/target 2>&1 | grep -E "^test result: .* [0-9]+ passed" | head -1
mkdir -p memcrs/tests; cp mutant/$DEMO.rs memcrs/tests/
echo "--- demo WITH the change"
$PRE cargo test --offline -p memcrs --target-dir $W/${TGT:-target} --test $DEMO "$@" 2>&1 | grep -E "^test result" | head -2
git apply -R mutant/patch.diff
echo "--- demo WITHOUT the change"
$PRE cargo test --offline -p memcrs --target-dir $W/${TGT:-target} --test $DEMO "$@" 2>&1 | grep -E "^test result" | head -2
git apply mutant/patch.diff
rm -rf memcrs/tests
