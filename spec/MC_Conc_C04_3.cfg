CONSTANTS
  MaxU = "18446744073709551615"
  Clients = {1, 2, 3}
  Progs <- Progs04_3
  Inits = {"absent", "present", "expired"}
  KeyLock = TRUE
  ExpiryRecheck = TRUE
  EntryApi = TRUE
  FlushLock = TRUE
  CollectOwn = TRUE
SPECIFICATION Spec
INVARIANT Linearizable
INVARIANT SerialEquiv
INVARIANT AcctExact
PROPERTY Termination
VIEW View
