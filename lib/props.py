"""Dispatch of property ids to the modules that decide them."""
import json
from vlib import ToolError, log
import props_seq
import props_more

SEQ = {"C01", "C02", "C05", "C06", "C07", "C08", "C14", "C15", "C19"}
WIRE = {"C09", "C10", "C11", "C12", "C13"}
SRV = {"C17", "C18"}
CONC = {"C03", "C04", "C16"}


def dispatch(pid, tier, seed, replay):
    if replay and (json.load(open(replay)).get("driver") == "cfg-suite" and pid != "C20" or json.load(open(replay)).get("spec") == "CountTrace" and pid != "C20"):
        # a replay of a job against the memcrsd binary (counting hammer, memory-limit probe, connection scenarios)
        rc = props_more.run_srv(pid, tier, seed, replay)
        log("RESULT property=%s tier=%s exit=%d" % (pid, tier, rc))
        return rc
    if pid in ("C14", "C15", "C05", "C01", "C02", "C06", "C07", "C08", "C19") and replay and json.load(open(replay)).get("spec") == "MemcLin":
        rc = props_more.run_conc(pid, tier, seed, replay)
    elif pid in SEQ:
        rc = props_seq.run(pid, tier, seed, replay, extra=(props_more.conc_eviction_extra if pid in ("C14", "C15") else props_more.conc_expiry_extra if pid == "C05"
                                                           else props_more.conc_extra if pid in ("C01", "C02", "C06", "C07", "C08", "C19") else None))
    elif pid in WIRE:
        rc = props_more.run_wire(pid, tier, seed, replay)
    elif pid in SRV:
        rc = props_more.run_srv(pid, tier, seed, replay)
    elif pid == "C20":
        rc = props_more.run_c20(pid, tier, seed, replay)
    elif pid in CONC:
        rc = props_more.run_conc(pid, tier, seed, replay)
    else:
        raise ToolError("no check registered for %s" % pid)
    log("RESULT property=%s tier=%s exit=%d" % (pid, tier, rc))
    return rc
