------------------------------ MODULE FaultTrace ------------------------------
(***************************************************************************)
(* C18: faults on one connection are contained.  The faulty connection     *)
(* sends the first `cut` bytes of a pipeline - a set creating item A, then *)
(* appends of distinct tokens to A, increments of counter C and other      *)
(* commands - and then closes, half-closes, resets, sends an invalid       *)
(* header, or falls silent.  An observer connection reads A and C while    *)
(* the prefix is being delivered and after the fault.  Contract:           *)
(*  - what the observer sees is what a PREFIX of the completely sent       *)
(*    requests implies: A = "S" t1 t2 .. tj (tokens in order, each once),  *)
(*    C = number of increments among the same prefix;                      *)
(*  - after an orderly close / half-close / invalid bytes / silence the    *)
(*    prefix is ALL completely sent requests; after a reset any prefix;    *)
(*  - the incomplete or invalid request is not executed;                   *)
(*  - the server keeps serving (the observer and a fresh connection get    *)
(*    their answers).                                                      *)
(***************************************************************************)
EXTENDS Naturals, Sequences, FiniteSets, TLC, Json, IOUtils, U64

Rec == ndJsonDeserialize(IOEnv.TRACE)
N   == Len(Rec)

VARIABLES l, fs, viol, cov
vars == <<l, fs, viol, cov>>
Init == l = 1 /\ fs = [frames |-> <<>>, len |-> 0] /\ viol = <<>> /\ cov = <<>>

Count(c, rule) == IF \E i \in 1..Len(c) : c[i][1] = rule
                  THEN [i \in 1..Len(c) |-> IF c[i][1] = rule THEN <<rule, c[i][2] + 1>> ELSE c[i]]
                  ELSE Append(c, <<rule, 1>>)

RECURSIVE EndOf(_, _)
EndOf(fr, i) == IF i = 0 THEN 0 ELSE EndOf(fr, i - 1) + fr[i].len
(* number of frames completely inside the first `cut` bytes *)
Complete(fr, cut) == Cardinality({i \in 1..Len(fr) : EndOf(fr, i) <= cut})

(* store content implied by the first p frames *)
RECURSIVE ValA(_, _)
ValA(fr, p) == IF p = 0 THEN "miss"
               ELSE LET prev == ValA(fr, p - 1) IN
                    IF fr[p].kind = "set" THEN fr[p].tok
                    ELSE IF fr[p].kind = "append" /\ prev # "miss" THEN prev \o fr[p].tok
                    ELSE prev
RECURSIVE CntC(_, _)
CntC(fr, p) == IF p = 0 THEN 0 ELSE CntC(fr, p - 1) + (IF fr[p].kind = "incr" THEN 1 ELSE 0)
ValC(fr, p) == IF CntC(fr, p) = 0 THEN "miss" ELSE TextHex(NatToStr(CntC(fr, p)))

Explains(fr, p, a, c) == a = ValA(fr, p) /\ c = ValC(fr, p)

Judge(e) ==
    LET fr == fs.frames
        nc == Complete(fr, e.cut)
        \* while the prefix was being delivered: some prefix of what had been sent, never shrinking
        \* (the observer reads A and then C in one pipeline: two moments, the second not before the first)
        obsOK == \A i \in 1..Len(e.obs) :
                    \E p1 \in 0..Complete(fr, e.obs[i].sent) : \E p2 \in p1..Complete(fr, e.obs[i].sent) :
                        e.obs[i].a = ValA(fr, p1) /\ e.obs[i].c = ValC(fr, p2)
        finalAll == Explains(fr, nc, e.a, e.c)
        finalSome == \E p \in 0..nc : Explains(fr, p, e.a, e.c)
            IN  IF ~e.alive \/ ~e.fresh THEN [tags |-> {"C18"}, rule |-> "server.stopped.serving"]
        ELSE IF ~obsOK THEN [tags |-> {"C18"}, rule |-> "observer.saw.impossible.state"]
        ELSE IF e.kind = "reset" THEN
            (IF finalSome THEN [tags |-> {}, rule |-> "reset.prefix"] ELSE [tags |-> {"C18"}, rule |-> "reset.not.a.prefix"])
        ELSE IF finalAll THEN [tags |-> {}, rule |-> e.kind \o ".all.complete.requests"]
        ELSE IF finalSome THEN [tags |-> {"C18"}, rule |-> e.kind \o ".complete.request.lost"]
        ELSE [tags |-> {"C18"}, rule |-> e.kind \o ".incomplete.or.foreign.request.executed"]

Step ==
    /\ l <= N /\ l' = l + 1
    /\ LET e == Rec[l] IN
       IF e.e = "fstream" THEN fs' = [frames |-> e.frames, len |-> e.len] /\ UNCHANGED <<viol, cov>>
       ELSE IF e.e = "bulky" THEN
            \* a connection closed by the server with a large answer still unsent must not stall the others, and what
            \* it had completely sent (the quiet store "done" = "yes") is executed
            /\ fs' = fs
            /\ IF e.alive /\ e.fresh /\ e.done = "796573" THEN cov' = Count(cov, "bulky.contained") /\ UNCHANGED viol
               ELSE viol' = Append(viol, [line |-> l, tags |-> {"C18"}, rule |-> IF e.alive /\ e.fresh THEN "bulky.complete.request.lost" ELSE "bulky.others.stalled",
                                         cut |-> 0, kind |-> "bulky"]) /\ UNCHANGED cov
       ELSE IF e.e = "hogs" THEN
            \* silent clients (a complete quiet store and a truncated request in one write, then nothing) on every slot: what
            \* was complete is executed, the torn request is not, and after the receive timeout others are served again
            /\ fs' = fs
            /\ IF e.served /\ e.done = "796573" /\ e.torn = "miss" /\ e.closed = e.n THEN cov' = Count(cov, "silent.hogs.timed.out") /\ UNCHANGED viol
               ELSE viol' = Append(viol, [line |-> l, tags |-> {"C18", "C17"},
                                         rule |-> IF ~e.served \/ e.closed # e.n THEN "silent.clients.keep.their.slots"
                                                  ELSE IF e.torn # "miss" THEN "silence.incomplete.request.executed" ELSE "silence.complete.request.lost",
                                         cut |-> 0, kind |-> "hogs"]) /\ UNCHANGED cov
       ELSE LET j == Judge(e) IN
            /\ fs' = fs
            /\ IF j.tags = {} THEN cov' = Count(cov, j.rule) /\ UNCHANGED viol
               ELSE viol' = Append(viol, [line |-> l, tags |-> j.tags, rule |-> j.rule, cut |-> e.cut, kind |-> e.kind]) /\ UNCHANGED cov
Next == Step
Spec == Init /\ [][Next]_vars
Report == l = N + 1 => PrintT("RESULT " \o ToJson([lines |-> N, violations |-> viol, coverage |-> cov, notes |-> <<>>]))
Accepted == TLCGet("stats").diameter - 1 = N
=============================================================================
