//! Decoder-level driver: a byte stream (a pipeline of frames, well-formed or
//! not) is fed to the real `Decoder::decode` chunk by chunk, exactly as
//! `read_frame` does (decode until it asks for more bytes), every decoded
//! request is handled and encoded.  The same stream is run under many
//! segmentations ("universes"), each on a fresh store.
use crate::proto::{hex, parse_responses, Frame};
use crate::seq::Sut;
use bytes::BytesMut;
use rand::rngs::SmallRng;
use rand::seq::SliceRandom;
use rand::Rng;
use serde_json::{json, Value};
use std::io::Write;
use std::panic::{catch_unwind, AssertUnwindSafe};
use tokio_util::codec::{Decoder, Encoder};

#[derive(Clone)]
pub struct Stream {
    pub name: String,
    pub limit: u32,
    pub frames: Vec<Frame>,
    /// extra bytes appended after the last frame (garbage / truncated frame)
    pub tail: Vec<u8>,
}

impl Stream {
    pub fn bytes(&self) -> Vec<u8> {
        let mut v = Vec::new();
        for f in &self.frames {
            v.extend_from_slice(&f.bytes());
        }
        v.extend_from_slice(&self.tail);
        v
    }
}

pub fn stream_event(id: usize, s: &Stream, bytes_len: usize) -> Value {
    json!({"e": "stream", "id": id, "name": s.name, "limit": s.limit, "len": bytes_len,
        "tail": s.tail.len(), "strict": s.name.starts_with("tflip"),
        "frames": s.frames.iter().map(|f| f.header_json()).collect::<Vec<_>>()})
}

/// Runs one universe.  Returns the number of events written.
pub fn run_universe(bytes: &[u8], seg: &[usize], limit: u32, u: usize, out: &mut dyn Write, max_cap_seen: &mut usize) -> usize {
    let mut sut = Sut::new("none", 0, limit);
    let mut events = 1;
    let segdesc = if seg.len() > 8 { format!("{} chunks, first {:?}", seg.len(), &seg[..4]) } else { format!("{:?}", seg) };
    writeln!(out, "{}", json!({"e": "run", "u": u, "seg": segdesc})).unwrap();
    // consecutive (feed ; decode -> none) pairs are logged as one event carrying the last fed count
    let mut quiet: usize = 0;
    let mut buf = BytesMut::with_capacity(4096);
    let mut fed = 0usize;
    let mut exec: Vec<String> = Vec::new();
    let mut ropq: Vec<String> = Vec::new();
    let mut all_resp: Vec<u8> = Vec::new();
    let mut closed = false;
    let mut panicked = false;
    let mut stalls = 0usize;
    let mut chunks: Vec<usize> = seg.to_vec();
    let total: usize = chunks.iter().sum();
    if total < bytes.len() {
        chunks.push(bytes.len() - total);
    }
    'outer: for n in chunks {
        if n == 0 {
            continue;
        }
        let end = std::cmp::min(fed + n, bytes.len());
        buf.extend_from_slice(&bytes[fed..end]);
        let fed_now = end - fed;
        fed = end;
        let _ = fed_now;
        let mut first = true;
        loop {
            let before = buf.len();
            let codec = &mut sut.codec;
            let handler = &sut.handler;
            let res = catch_unwind(AssertUnwindSafe(|| match codec.decode(&mut buf) {
                Ok(Some(req)) => {
                    let h = *req.get_header();
                    let too_large = matches!(req, memcrs::protocol::binary_codec::BinaryRequest::ItemTooLarge(_));
                    let mut o = BytesMut::new();
                    if let Some(resp) = handler.handle_request(req) {
                        let _ = codec.encode(resp, &mut o);
                    }
                    ("frame", Some((h, too_large)), o.to_vec())
                }
                Ok(None) => ("none", None, Vec::new()),
                Err(_) => ("err", None, Vec::new()),
            }));
            let cap = buf.capacity();
            if cap > *max_cap_seen {
                *max_cap_seen = cap;
            }
            match res {
                Ok((outc, hdr, resp)) => {
                    let pos = fed - buf.len();
                    if first && outc == "none" {
                        quiet += 1;
                        break;
                    }
                    if first {
                        if quiet > 0 {
                            writeln!(out, "{}", json!({"e": "quiet", "feeds": quiet, "fed": fed - fed_now})).unwrap();
                            events += 1;
                            quiet = 0;
                        }
                        writeln!(out, "{}", json!({"e": "feed", "n": fed_now, "fed": fed})).unwrap();
                        events += 1;
                        first = false;
                    }
                    let mut ev = json!({"e": "dec", "out": outc, "pos": pos, "buf": buf.len(), "before": before, "cap": cap,
                        "opq": "", "opc": 0, "toolarge": false, "r": []});
                    if let Some((h, tl)) = hdr {
                        // serde gives the header's public JSON form; only opcode/opaque are needed
                        let hv = serde_json::to_value(&h).unwrap_or(json!({}));
                        ev["opq"] = json!(hv["opaque"].as_u64().unwrap_or(0).to_string());
                        ev["opc"] = json!(hv["opcode"].as_u64().unwrap_or(0));
                        ev["toolarge"] = json!(tl);
                        exec.push(hv["opaque"].as_u64().unwrap_or(0).to_string());
                        let prs = parse_responses(&resp);
                        for r in &prs {
                            ropq.push(r["opq"].as_str().unwrap_or("").to_string());
                        }
                        ev["r"] = json!(prs);
                        all_resp.extend_from_slice(&resp);
                    }
                    writeln!(out, "{}", ev).unwrap();
                    events += 1;
                    // a decoder that hands out frames without taking bytes would go on forever: the events so far show it
                    // (frame at the wrong position); the universe ends here
                    if outc == "frame" && before == buf.len() {
                        stalls += 1;
                        if stalls > 3 {
                            closed = true;
                            break 'outer;
                        }
                    }
                    match outc {
                        "frame" => {
                            // quit / quitq end the connection loop (client_handler.rs); nothing behind them is decoded
                            let opc = ev["opc"].as_u64().unwrap_or(0);
                            if opc == 0x07 || opc == 0x17 {
                                closed = true;
                                break 'outer;
                            }
                            if ev["toolarge"].as_bool() == Some(true) {
                                // the connection layer discards the body; that part is exercised over TCP only
                                closed = true;
                                break 'outer;
                            }
                            continue;
                        }
                        "none" => break,
                        _ => {
                            closed = true;
                            break 'outer;
                        }
                    }
                }
                Err(_) => {
                    if quiet > 0 {
                        writeln!(out, "{}", json!({"e": "quiet", "feeds": quiet, "fed": fed - fed_now})).unwrap();
                        events += 1;
                        quiet = 0;
                    }
                    writeln!(out, "{}", json!({"e": "feed", "n": fed_now, "fed": fed})).unwrap();
                    writeln!(out, "{}", json!({"e": "dec", "out": "panic", "pos": fed - buf.len(), "buf": buf.len(),
                        "before": before, "cap": cap, "opq": "", "opc": 0, "toolarge": false, "r": []})).unwrap();
                    events += 1;
                    panicked = true;
                    closed = true;
                    break 'outer;
                }
            }
        }
    }
    if quiet > 0 {
        writeln!(out, "{}", json!({"e": "quiet", "feeds": quiet, "fed": fed})).unwrap();
        events += 1;
    }
    writeln!(out, "{}", json!({"e": "end", "closed": closed, "panic": panicked, "pos": fed - buf.len(), "fed": fed,
        "exec": exec, "ropq": ropq, "resp": hex(&all_resp)})).unwrap();
    events + 1
}

// ---------------------------------------------------------------------------------------------
// stream generators

fn rkey(rng: &mut SmallRng) -> Vec<u8> {
    match rng.gen_range(0..6) {
        0 => vec![b'k'],
        1 => vec![b'k', b'1'],
        2 => (0..250).map(|_| rng.gen()).collect(),
        _ => {
            let n = rng.gen_range(1..=8);
            (0..n).map(|_| rng.gen_range(b'a'..=b'z')).collect()
        }
    }
}

fn rval(rng: &mut SmallRng, max: usize) -> Vec<u8> {
    let n = match rng.gen_range(0..6) {
        0 => 0,
        1 => max,
        _ => rng.gen_range(0..=max),
    };
    (0..n).map(|_| rng.gen()).collect()
}

/// a canonical frame of a random implemented opcode
pub fn canonical_frame(rng: &mut SmallRng, opaque: u32, maxval: usize) -> Frame {
    let ops: [u8; 26] = [0x00, 0x09, 0x0c, 0x0d, 0x01, 0x11, 0x02, 0x12, 0x03, 0x13, 0x04, 0x14, 0x05, 0x15, 0x06, 0x16,
        0x08, 0x18, 0x0e, 0x19, 0x0f, 0x1a, 0x0a, 0x0b, 0x10, 0x0a];
    let op = ops[rng.gen_range(0..ops.len())];
    frame_for(op, rng, opaque, maxval)
}

pub fn frame_for(op: u8, rng: &mut SmallRng, opaque: u32, maxval: usize) -> Frame {
    let cas: u64 = if rng.gen_bool(0.8) { 0 } else { rng.gen_range(1..5) };
    let key = rkey(rng);
    match op {
        0x00 | 0x09 | 0x0c | 0x0d | 0x04 | 0x14 => Frame::consistent(op, &[], &key, &[], opaque, cas),
        0x01 | 0x11 | 0x02 | 0x12 | 0x03 | 0x13 => {
            let mut ex = Vec::new();
            ex.extend_from_slice(&rng.gen::<u32>().to_be_bytes());
            ex.extend_from_slice(&(rng.gen_range(0..3u32)).to_be_bytes());
            let v = if rng.gen_bool(0.3) { rng.gen_range(0..100u32).to_string().into_bytes() } else { rval(rng, maxval) };
            Frame::consistent(op, &ex, &key, &v, opaque, cas)
        }
        0x0e | 0x19 | 0x0f | 0x1a => Frame::consistent(op, &[], &key, &rval(rng, std::cmp::min(maxval, 16)), opaque, cas),
        0x05 | 0x15 | 0x06 | 0x16 => {
            let mut ex = Vec::new();
            ex.extend_from_slice(&rng.gen_range(0..10u64).to_be_bytes());
            ex.extend_from_slice(&rng.gen_range(0..10u64).to_be_bytes());
            ex.extend_from_slice(&(if rng.gen_bool(0.2) { 0xffff_ffffu32 } else { 0 }).to_be_bytes());
            Frame::consistent(op, &ex, &key, &[], opaque, cas)
        }
        0x08 | 0x18 => {
            if rng.gen_bool(0.5) {
                Frame::consistent(op, &rng.gen_range(0..3u32).to_be_bytes(), &[], &[], opaque, 0)
            } else {
                Frame::consistent(op, &[], &[], &[], opaque, 0)
            }
        }
        // touch / gat: extras = expiration, key
        0x1c | 0x1d | 0x1e | 0x23 | 0x24 => Frame::consistent(op, &60u32.to_be_bytes(), &key, &[], opaque, 0),
        0x21 | 0x22 => Frame::consistent(op, &[], b"PLAIN", b"\0user\0pass", opaque, 0),
        _ => Frame::consistent(op, &[], &[], &[], opaque, 0),
    }
}

/// a frame that passes the header checks listed in C10 but does not have the shape of its opcode
pub fn odd_frame(rng: &mut SmallRng, opaque: u32) -> Frame {
    let key = rkey(rng);
    let k: &[u8] = if key.len() > 20 { &key[..4] } else { &key };
    match rng.gen_range(0..12) {
        // get / delete with extras, with a value, with both
        0 => Frame::consistent(*[0x00u8, 0x09, 0x0c, 0x04].choose(rng).unwrap(), &[1, 2, 3, 4], k, &[], opaque, 0),
        1 => Frame::consistent(*[0x00u8, 0x0d, 0x04, 0x14].choose(rng).unwrap(), &[], k, b"value", opaque, 0),
        // set with 0, 4, 12, 20 extras
        2 => {
            let n = *[0usize, 4, 7, 12, 20].choose(rng).unwrap();
            Frame::consistent(*[0x01u8, 0x02, 0x03, 0x11].choose(rng).unwrap(), &vec![0u8; n], k, b"vvvvvvvvvvvv", opaque, 0)
        }
        // append with extras
        3 => Frame::consistent(*[0x0eu8, 0x0f, 0x19].choose(rng).unwrap(), &[0, 0, 0, 1], k, b"xy", opaque, 0),
        // incr with a value behind the key, or with short extras
        4 => Frame::consistent(*[0x05u8, 0x06, 0x15].choose(rng).unwrap(), &[0u8; 20], k, b"tail", opaque, 0),
        5 => Frame::consistent(*[0x05u8, 0x06].choose(rng).unwrap(), &[0u8; 8], k, &[0u8; 16], opaque, 0),
        // flush with a key, with 8 extras, with a value
        6 => Frame::consistent(0x08, &[], k, &[], opaque, 0),
        7 => Frame::consistent(0x08, &[0u8; 8], &[], &[], opaque, 0),
        8 => Frame::consistent(0x18, &[0, 0, 0, 0], &[], b"zz", opaque, 0),
        // header-only commands with a body
        9 => Frame::consistent(*[0x0au8, 0x0b, 0x10, 0x07].choose(rng).unwrap(), &[], k, &[], opaque, 0),
        10 => Frame::consistent(*[0x0au8, 0x0b, 0x10].choose(rng).unwrap(), &[], &[], b"body", opaque, 0),
        _ => Frame::consistent(*[0x0au8, 0x0b].choose(rng).unwrap(), &[9, 9, 9, 9], &[], &[], opaque, 0),
    }
}

/// a frame the C10 list says must never be executed
pub fn invalid_frame(rng: &mut SmallRng, opaque: u32) -> Frame {
    let mut f = frame_for(*[0x00u8, 0x01, 0x04, 0x05, 0x0e, 0x0a].choose(rng).unwrap(), rng, opaque, 8);
    match rng.gen_range(0..8) {
        0 => f.magic = *[0x00u8, 0x81, 0x7f, 0xff].choose(rng).unwrap(),
        1 => f.opcode = *[0x25u8, 0x26, 0x40, 0x80, 0xff, 0x1b, 0x1f].choose(rng).unwrap(),
        2 => f.data_type = *[1u8, 2, 0xff].choose(rng).unwrap(),
        3 => {
            // key longer than 250
            let key: Vec<u8> = (0..*[251usize, 252, 256, 300, 506, 512, 1000].choose(rng).unwrap()).map(|_| b'k').collect();
            f = Frame::consistent(*[0x00u8, 0x04].choose(rng).unwrap(), &[], &key, &[], opaque, 0);
        }
        4 => {
            // more than 20 extras
            let n = *[21usize, 24, 255].choose(rng).unwrap();
            f = Frame::consistent(0x01, &vec![0u8; n], b"k", b"v", opaque, 0);
        }
        5 => {
            // missing key
            f = match rng.gen_range(0..4) {
                0 => Frame::consistent(0x00, &[], &[], &[], opaque, 0),
                1 => Frame::consistent(0x01, &[0u8; 8], &[], b"v", opaque, 0),
                2 => Frame::consistent(0x05, &[0u8; 20], &[], &[], opaque, 0),
                _ => Frame::consistent(0x0e, &[], &[], b"v", opaque, 0),
            };
        }
        6 => {
            // body shorter than key + extras
            f = Frame::consistent(0x01, &[0u8; 8], b"key", b"", opaque, 0);
            f.body_length = *[0u32, 1, 10].choose(rng).unwrap();
            f.body.truncate(f.body_length as usize);
        }
        _ => {
            f = Frame::consistent(0x00, &[], b"key", &[], opaque, 0);
            f.body_length = 2;
            f.body.truncate(2);
        }
    }
    f
}

pub fn gen_stream(profile: &str, name: &str, rng: &mut SmallRng) -> Stream {
    let limit = *[64u32, 256, 1024].choose(rng).unwrap();
    let mut frames = Vec::new();
    let mut tail = Vec::new();
    let mut opq: u32 = rng.gen_range(1..1000) * 1000;
    let maxval = std::cmp::min(24, limit as usize / 4);
    let sentinel = |o: u32| Frame::consistent(0x0a, &[], &[], &[], o, 0);
    match profile {
        "pipeline" => {
            for _ in 0..rng.gen_range(2..=5) {
                opq += 1;
                let mut f = canonical_frame(rng, opq, maxval);
                while f.body_length > limit {
                    f = canonical_frame(rng, opq, maxval);
                }
                frames.push(f);
            }
            // sometimes the stream ends in the middle of a frame
            if rng.gen_bool(0.25) {
                let f = canonical_frame(rng, opq + 1, maxval);
                let b = f.bytes();
                let cut = rng.gen_range(1..b.len().max(2));
                tail = b[..std::cmp::min(cut, b.len() - 1)].to_vec();
            }
        }
        "unimpl" => {
            for _ in 0..rng.gen_range(1..=3) {
                opq += 1;
                let f = if rng.gen_bool(0.5) {
                    frame_for(*[0x1cu8, 0x1d, 0x1e, 0x20, 0x21, 0x22, 0x23, 0x24].choose(rng).unwrap(), rng, opq, maxval)
                } else {
                    canonical_frame(rng, opq, maxval)
                };
                if f.body_length <= limit {
                    frames.push(f);
                }
            }
            opq += 1;
            frames.push(sentinel(opq));
        }
        "odd" => {
            let at = rng.gen_range(0..3);
            for i in 0..3 {
                opq += 1;
                let f = if i == at { odd_frame(rng, opq) } else { canonical_frame(rng, opq, maxval) };
                if f.body_length <= limit {
                    frames.push(f);
                }
            }
            opq += 1;
            frames.push(sentinel(opq));
        }
        "invalid" => {
            let at = rng.gen_range(0..2);
            for i in 0..2 {
                opq += 1;
                let f = if i == at { invalid_frame(rng, opq) } else { canonical_frame(rng, opq, maxval) };
                if f.body_length <= limit || i == at {
                    frames.push(f);
                }
            }
            opq += 1;
            frames.push(sentinel(opq));
        }
        "random" => {
            // mutations of a valid stream, or plain noise
            if rng.gen_bool(0.3) {
                let n = rng.gen_range(1..120);
                tail = (0..n).map(|_| rng.gen()).collect();
                if rng.gen_bool(0.7) {
                    tail[0] = 0x80;
                }
            } else {
                let mut b = Vec::new();
                for _ in 0..rng.gen_range(1..=3) {
                    opq += 1;
                    b.extend_from_slice(&canonical_frame(rng, opq, maxval).bytes());
                }
                for _ in 0..rng.gen_range(1..=3) {
                    let i = rng.gen_range(0..b.len());
                    match rng.gen_range(0..3) {
                        0 => b[i] = rng.gen(),
                        1 => b[i] ^= 1 << rng.gen_range(0..8),
                        _ => {
                            b.remove(i);
                        }
                    }
                }
                tail = b;
            }
        }
        _ => panic!("unknown wire profile {}", profile),
    }
    Stream { name: name.to_string(), limit, frames, tail }
}

/// The boundary grid of header fields (C10): one frame per combination, followed by a sentinel noop.
pub fn grid_streams(limit: u32, opcodes: &[u8]) -> Vec<Stream> {
    let mut out = Vec::new();
    // around the 250-byte limit, around 2^8 (a length checked in the wrong width), near 2^16 (key + extras overflow)
    let kls: [u16; 11] = [0, 1, 2, 250, 251, 256, 300, 506, 512, 65528, 65535];
    let els: [u8; 7] = [0, 4, 8, 20, 21, 24, 255];
    let mut opq = 0u32;
    for &op in opcodes {
        // opcodes >= 0x25 are refused on the header alone: a small sub-grid suffices for them
        let high = op >= 0x25;
        for &kl in &kls {
            if high && !(kl == 0 || kl == 251) {
                continue;
            }
            // the wider key lengths only with the opcodes that take a key (and two others)
            if kl > 251 && kl < 65535 && !matches!(op, 0x00 | 0x01 | 0x04 | 0x05 | 0x0e | 0x0a | 0x08 | 0x1c | 0x09 | 0x11) {
                continue;
            }
            for &el in &els {
                if high && !(el == 0 || el == 21) {
                    continue;
                }
                let base = kl as i64 + el as i64;
                let mut bls: Vec<i64> = vec![base - 1, base, base + 1, base + 5, 0, limit as i64 - 1, limit as i64, limit as i64 + 1, 0xffff_ffff];
                bls.sort();
                bls.dedup();
                for bl in bls {
                    if bl < 0 {
                        continue;
                    }
                    for (magic, dt) in [(0x80u8, 0u8), (0x81, 0), (0x80, 1)] {
                        // only vary magic / data type on a sub-grid
                        if (magic != 0x80 || dt != 0) && !(el == 0 || el == 8) {
                            continue;
                        }
                        // bytes available: nothing, part of the body, exactly the body, more than the body
                        let avail_opts: Vec<i64> = vec![0, std::cmp::min(bl, 3), std::cmp::min(bl, 70000), std::cmp::min(bl, 70000) + 30];
                        for (ai, avail) in avail_opts.iter().enumerate() {
                            if *avail > 70030 || (ai > 0 && *avail == avail_opts[ai - 1]) {
                                continue;
                            }
                            opq += 1;
                            let body: Vec<u8> = (0..*avail as usize).map(|i| (i % 251) as u8).collect();
                            let f = Frame { magic, opcode: op, key_length: kl, extras_length: el, data_type: dt, vbucket: 0,
                                body_length: bl as u32, opaque: opq, cas: 0, body };
                            out.push(Stream { name: format!("grid-{:02x}-{}-{}-{}-{}", op, kl, el, bl, avail), limit,
                                frames: vec![f], tail: vec![] });
                        }
                    }
                }
            }
        }
    }
    out
}

/// segmentations of a stream of n bytes
pub fn segmentations(n: usize, mode: &str, rng: &mut SmallRng) -> Vec<Vec<usize>> {
    let mut out: Vec<Vec<usize>> = vec![vec![n]];
    if n <= 1 {
        return out;
    }
    let singles: Vec<usize> = if n <= 400 || mode == "all" { (1..n).collect() } else {
        let mut v: Vec<usize> = (1..n).collect();
        v.shuffle(rng);
        v.truncate(400);
        v
    };
    match mode {
        "two" => {
            out.push(vec![24.min(n)]);
            if n <= 64 {
                out.push(vec![1; n]);
            }
        }
        "few" => {
            out.push(vec![1; n]);
            out.push(vec![24.min(n)]);
            out.push(vec![23.min(n)]);
            out.push(vec![25.min(n)]);
        }
        _ => {
            for c in singles {
                out.push(vec![c]);
            }
            out.push(vec![1; n]);
            let k = if mode == "pairs" { 0 } else { 12 };
            for _ in 0..k {
                let cuts = rng.gen_range(2..=6);
                let mut pts: Vec<usize> = (0..cuts).map(|_| rng.gen_range(1..n)).collect();
                pts.sort();
                pts.dedup();
                let mut seg = Vec::new();
                let mut last = 0;
                for p in pts {
                    seg.push(p - last);
                    last = p;
                }
                out.push(seg);
            }
            if mode == "pairs" && n <= 160 {
                for a in 1..n {
                    for b in (a + 1)..n {
                        out.push(vec![a, b - a]);
                    }
                }
            }
        }
    }
    out
}
