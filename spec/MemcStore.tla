------------------------------ MODULE MemcStore ------------------------------
(***************************************************************************)
(* The sequential MODEL OF THE CODE: what memc-rs computes for one command *)
(* at a time, transcribed from                                             *)
(*   memory_store/store.rs   (get_by_key, check_if_expired, set, delete,    *)
(*                            flush, remove_if, memory accounting)          *)
(*   memcache/random_policy.rs (evict after a successful store)             *)
(*   memcache/store.rs        (add/replace/append/prepend/incr/decr =       *)
(*                            get ; set)                                    *)
(*   memcache_server/handler.rs (responses, quiet filters)                  *)
(* including the physical details the contract abstracts from: expired     *)
(* entries stay in the map until a get collects them, the CAS counter, the *)
(* timestamp/ttl pairs, the byte accounting.  It is written functionally:  *)
(* ExecSet(m, c) is the set of [m, r] outcomes of command c in state m     *)
(* (a set only because the eviction victim is random).                     *)
(*                                                                         *)
(* Uses: (1) MC_Store checks, exhaustively for small constants, that every *)
(* behaviour of this model is accepted by MemcContract; (2) MC_Store also  *)
(* emits the behaviours as programs that are replayed against the real     *)
(* crate; (3) MemcStoreTrace checks recorded executions of the real crate  *)
(* against this model step by step (response and physical state).          *)
(***************************************************************************)
EXTENDS MemcContract

NoRec == [p |-> FALSE, val |-> "", flags |-> "", cas |-> "", ts |-> 0, ttl |-> 0]

TxtNotFound   == "4e6f7420666f756e64"
TxtKeyExists  == "4b657920657869737473"
TxtTooBig     == "56616c756520746f6f20626967"
TxtNonNumeric == "496e63722f44656372206f6e206e6f6e206e756d657269632076616c7565"
TxtVersion    == "302e302e31"
ErrText(st) == CASE st = 1 -> TxtNotFound [] st = 2 -> TxtKeyExists [] st = 3 -> TxtTooBig
                 [] st = 6 -> TxtNonNumeric [] OTHER -> "3f"

InitModel(keys, policy, L, limit) ==
    [ now |-> 0, keys |-> keys, map |-> [k \in keys |-> NoRec], ctr |-> "1", usage |-> 0,
      policy |-> policy, L |-> L, limit |-> limit ]

RecSize(rec) == 24 + (Len(rec.val) \div 2)
Present(m) == {k \in m.keys : m.map[k].p}
RECURSIVE SumSizes(_, _)
SumSizes(m, ks) == IF ks = {} THEN 0
                   ELSE LET k == CHOOSE x \in ks : TRUE IN RecSize(m.map[k]) + SumSizes(m, ks \ {k})
StoredBytes(m) == SumSizes(m, Present(m))

Remove(m, k) == IF m.map[k].p
                THEN [m EXCEPT !.map[k] = NoRec, !.usage = @ - RecSize(m.map[k])]
                ELSE m
Insert(m, k, rec) == [m EXCEPT !.map[k] = rec,
                               !.usage = (@ + RecSize(rec)) - (IF m.map[k].p THEN RecSize(m.map[k]) ELSE 0)]

Expired(m, rec) == rec.ttl # 0 /\ rec.ts + rec.ttl <= m.now

(* Cache::get = get_by_key ; check_if_expired (which removes the entry) *)
Get(m, k) == LET rec == m.map[k] IN
             IF ~rec.p THEN [m |-> m, hit |-> FALSE, rec |-> NoRec]
             ELSE IF Expired(m, rec) THEN [m |-> Remove(m, k), hit |-> FALSE, rec |-> NoRec]
             ELSE [m |-> m, hit |-> TRUE, rec |-> rec]

NextCtr(c) == IF c = MaxU THEN "0" ELSE Plus(c, "1")       \* fetch_add wraps
Succ1(c)   == IF c = MaxU THEN "1" ELSE Plus(c, "1")       \* wrapping_add(1).max(1)

(* RandomPolicy::evict: while the stored bytes exceed the limit remove a random other record *)
RECURSIVE EvictSet(_, _)
EvictSet(m, written) ==
    IF m.policy # "random" \/ m.usage <= m.L \/ Cardinality(Present(m)) <= 1 THEN {m}
    ELSE LET others == Present(m) \ {written} IN
         IF others = {} THEN {m}
         ELSE UNION {EvictSet(Remove(m, v), written) : v \in others}

(* MemoryStore::set (+ RandomPolicy::set); rec carries the request's cas in rec.cas.        *)
(* Result: set of [m, ok, st, cas]                                                          *)
StoreSet(m, k, rec) ==
    LET cur == m.map[k] IN
    IF rec.cas # "0" THEN
        IF cur.p THEN
            IF cur.cas # rec.cas THEN {[m |-> m, ok |-> FALSE, st |-> 2, cas |-> "0"]}
            ELSE LET nc == m.ctr
                     m1 == Insert([m EXCEPT !.ctr = NextCtr(@)], k, [rec EXCEPT !.cas = nc, !.ts = m.now])
                 IN  {[m |-> m2, ok |-> TRUE, st |-> 0, cas |-> nc] : m2 \in EvictSet(m1, k)}
        ELSE LET nc == Succ1(rec.cas)
                 m1 == Insert(m, k, [rec EXCEPT !.cas = nc, !.ts = m.now])
             IN  {[m |-> m2, ok |-> TRUE, st |-> 0, cas |-> nc] : m2 \in EvictSet(m1, k)}
    ELSE LET nc == m.ctr
             m1 == Insert([m EXCEPT !.ctr = NextCtr(@)], k, [rec EXCEPT !.cas = nc, !.ts = m.now])
         IN  {[m |-> m2, ok |-> TRUE, st |-> 0, cas |-> nc] : m2 \in EvictSet(m1, k)}

Fail(m, st) == {[m |-> m, ok |-> FALSE, st |-> st, cas |-> "0"]}
NewRec(c) == [p |-> TRUE, val |-> c.v, flags |-> c.f, cas |-> c.cas, ts |-> 0, ttl |-> c.ttl]

(* memcache/store.rs: results are sets of [m, ok, st, cas, n] *)
WithN(S, n) == {[m |-> x.m, ok |-> x.ok, st |-> x.st, cas |-> x.cas, n |-> n] : x \in S}

DoSet(m, c)     == WithN(StoreSet(m, c.k, NewRec(c)), "")
DoAdd(m, c)     == LET g == Get(m, c.k) IN
                   IF g.hit THEN WithN(Fail(g.m, 2), "") ELSE WithN(StoreSet(g.m, c.k, NewRec(c)), "")
DoReplace(m, c) == LET g == Get(m, c.k) IN
                   IF g.hit THEN WithN(StoreSet(g.m, c.k, NewRec(c)), "") ELSE WithN(Fail(g.m, 1), "")
DoConcat(m, c)  == LET g == Get(m, c.k) IN
                   IF ~g.hit THEN WithN(Fail(g.m, 1), "")
                   ELSE LET nv == IF c.op = "append" THEN g.rec.val \o c.v ELSE c.v \o g.rec.val
                        IN  WithN(StoreSet(g.m, c.k, [g.rec EXCEPT !.val = nv, !.cas = c.cas]), "")
(* str::from_utf8 + parse::<u64>: ASCII digits, optionally preceded by '+', value <= u64::MAX *)
Parses(h) == NumClass(h) \in {"num", "plus"}
DoDelta(m, c)   == LET g == Get(m, c.k) IN
                   IF g.hit THEN
                       IF ~Parses(g.rec.val) THEN WithN(Fail(g.m, 6), "")
                       ELSE LET nv == DeltaResult(c, NumOf(g.rec.val))
                                rec == [p |-> TRUE, val |-> TextHex(nv), flags |-> g.rec.flags, cas |-> c.cas,
                                        ts |-> 0, ttl |-> c.ttl]
                            IN  WithN(StoreSet(g.m, c.k, rec), nv)
                   ELSE IF c.ttls = U32Max THEN WithN(Fail(g.m, 1), "")
                   ELSE WithN(StoreSet(g.m, c.k, [p |-> TRUE, val |-> TextHex(c.i), flags |-> "0", cas |-> "0",
                                                  ts |-> 0, ttl |-> c.ttl]), c.i)
DoDelete(m, c)  == LET cur == m.map[c.k] IN
                   IF ~cur.p THEN WithN(Fail(m, 1), "")
                   ELSE IF c.cas = "0" \/ cur.cas = c.cas
                        THEN {[m |-> Remove(m, c.k), ok |-> TRUE, st |-> 0, cas |-> "0", n |-> ""]}
                   ELSE WithN(Fail(m, 2), "")
DoFlush(m, c)   == IF c.ttl > 0 THEN
                       LET dl == m.now + c.ttl IN
                       {[m |-> [m EXCEPT !.map = [k \in m.keys |->
                                   LET r == m.map[k] IN
                                   IF r.p /\ (r.ttl = 0 \/ r.ts + r.ttl > dl)
                                   THEN [r EXCEPT !.ts = m.now, !.ttl = c.ttl] ELSE r]],
                         ok |-> TRUE, st |-> 0, cas |-> "0", n |-> ""]}
                   ELSE {[m |-> [m EXCEPT !.map = [k \in m.keys |-> NoRec], !.usage = 0],
                          ok |-> TRUE, st |-> 0, cas |-> "0", n |-> ""]}

(***************************************************************************)
(* handler.rs: the response frame                                          *)
(***************************************************************************)
Frame(c, st, cas, x, key, v, f, n) ==
    [magic |-> 129, op |-> c.opc, kl |-> Len(key) \div 2, el |-> Len(x) \div 2, dt |-> 0, st |-> st,
     bl |-> (Len(x) + Len(key) + Len(v)) \div 2, al |-> (Len(x) + Len(key) + Len(v)) \div 2,
     opq |-> c.opq, cas |-> cas, x |-> x, key |-> key, v |-> v, f |-> f, n |-> n, short |-> 0, raw |-> ""]
ErrFrame(c, st) == Frame(c, st, "0", "", "", ErrText(st), "", "")
OkFrame(c, cas) == Frame(c, 0, cas, "", "", "", "", "")

(* quiet mutations answer only errors *)
Mutation(c, S) == {[m |-> x.m,
                    r |-> IF ~x.ok THEN <<ErrFrame(c, x.st)>>
                          ELSE IF c.q THEN <<>>
                          ELSE IF c.op \in DeltaOps
                               THEN <<Frame(c, 0, x.cas, "", "", "0000000000000000", "", x.n)>>
                          ELSE <<OkFrame(c, x.cas)>>] : x \in S}

ExecSet(m, c) ==
    IF c.bl > m.limit THEN {[m |-> m, r |-> <<ErrFrame(c, 3)>>]}
    ELSE IF c.op = "get" THEN
        LET g == Get(m, c.k) IN
        IF g.hit THEN {[m |-> g.m, r |-> <<Frame(c, 0, g.rec.cas, "00000000", IF c.gk THEN c.k ELSE "",
                                                 g.rec.val, g.rec.flags, "")>>]}
        ELSE {[m |-> g.m, r |-> IF c.q THEN <<>> ELSE <<ErrFrame(c, 1)>>]}
    ELSE IF c.op = "set" THEN Mutation(c, DoSet(m, c))
    ELSE IF c.op = "add" THEN Mutation(c, DoAdd(m, c))
    ELSE IF c.op = "replace" THEN Mutation(c, DoReplace(m, c))
    ELSE IF c.op \in ConcatOps THEN Mutation(c, DoConcat(m, c))
    ELSE IF c.op \in DeltaOps THEN Mutation(c, DoDelta(m, c))
    ELSE IF c.op = "delete" THEN Mutation(c, DoDelete(m, c))
    ELSE IF c.op = "flush" THEN Mutation(c, DoFlush(m, c))
    ELSE IF c.op \in {"version", "stat"} THEN {[m |-> m, r |-> <<Frame(c, 0, "0", "", "", TxtVersion, "", "")>>]}
    ELSE IF c.op = "quit" THEN {[m |-> m, r |-> IF c.q THEN <<>> ELSE <<OkFrame(c, "0")>>]}
    ELSE IF c.op = "noop" THEN {[m |-> m, r |-> <<OkFrame(c, "0")>>]}
    ELSE {[m |-> m, r |-> <<>>]}       \* touch / gat / sasl: decoded to "no frame" (open finding, see Wire)

(* the event a driver would record for command c with outcome o *)
RECURSIVE SetToSeq(_)
SetToSeq(S) == IF S = {} THEN <<>> ELSE LET x == CHOOSE y \in S : TRUE IN <<x>> \o SetToSeq(S \ {x})
EventOf(c, o) == [e |-> "cmd", op |-> c.op, q |-> c.q, gk |-> c.gk, opc |-> c.opc, k |-> c.k, v |-> c.v, f |-> c.f,
                  ttl |-> c.ttl, ttls |-> c.ttls, cas |-> c.cas, opq |-> c.opq, d |-> c.d, i |-> c.i, bl |-> c.bl,
                  dec |-> "frame", panic |-> FALSE, r |-> o.r,
                  present |-> SetToSeq(Present(o.m)), bytes |-> StoredBytes(o.m),
                  usage |-> IF o.m.policy = "random" THEN NatToStr(o.m.usage) ELSE ""]
=============================================================================
