CONSTANTS
  MaxU = "9"
  Keys = {"6b31", "6b32"}
  Vals = {"61", "31"}
  FlagVals = {"0", "7"}
  Ttls = {0, 2}
  CasVals = {"0", "1", "2"}
  Deltas = {"1"}
  Inits = {"5"}
  Quiets = {FALSE, TRUE}
  Ops = {"get", "set", "add", "replace", "append", "prepend", "incr", "decr", "delete", "flush", "noop"}
  TickTo = {1, 2, 3}
  Policy = "none"
  MemLimit = 0
  ItemLimit = 64
  MaxSteps = 3
  Emit = FALSE
  Randomised = FALSE
SPECIFICATION Spec
INVARIANT Refines
INVARIANT Accounting
INVARIANT EmptyZero
INVARIANT Bound
CONSTRAINT Bounded
VIEW View
CHECK_DEADLOCK FALSE
