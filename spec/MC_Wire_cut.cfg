CONSTANTS
  H = 2
  Limit = 2
  Cap0 = 4
  Alphabet <- AlphaSmall
  MaxFrames = 2
  Cuts = TRUE
SPECIFICATION Spec
INVARIANT Aligned
INVARIANT SafePrefix
INVARIANT Final
INVARIANT NeverExecInvalid
INVARIANT BufBound
INVARIANT QuitFinal
PROPERTY Terminates
VIEW View
CHECK_DEADLOCK FALSE
