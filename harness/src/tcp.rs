//! Socket-level driver: an in-process `MemcacheTcpServer` (tokio) on a
//! loopback port, clients with controlled writes, fault injection, hook
//! events (server-side reads, permits).
use crate::prog::{History, Step};
use crate::proto::{hex, parse_responses, Frame};
use crate::seq::{cmd_event, frame_of, TestTimer, Tokens};
use memcrs::cache::cache::Cache;
use memcrs::memcache::random_policy::RandomPolicy;
use memcrs::memcache_server::memc_tcp::{MemcacheServerConfig, MemcacheTcpServer};
use memcrs::memory_store::store::MemoryStore;
use serde_json::{json, Value};
use std::io::{Read, Write};
use std::net::{Shutdown, SocketAddr, TcpListener, TcpStream};
use std::sync::atomic::{AtomicU64, Ordering};
use std::sync::{Arc, Mutex};
use std::time::{Duration, Instant};

#[derive(Clone, Debug)]
pub struct HookEv {
    pub seq: u64,
    pub site: &'static str,
    pub nums: [u64; 4],
}

pub static HOOK_LOG: Mutex<Vec<HookEv>> = Mutex::new(Vec::new());
/// panics observed in this process (the in-process server's tasks included)
pub static PANICS: AtomicU64 = AtomicU64::new(0);
/// universes that ended because nothing more arrived within the deadline (each costs the whole deadline: a job
/// stops after a few of them - they are in the trace and judged there)
pub static TIMEOUTS: AtomicU64 = AtomicU64::new(0);

pub fn install_hook() {
    memcrs::verif::set_hook(Some(Arc::new(|ev: &memcrs::verif::Event| {
        if !ev.pre {
            HOOK_LOG.lock().unwrap().push(HookEv { seq: ev.seq, site: ev.site, nums: ev.nums });
        }
    })));
}

pub fn hook_snapshot() -> Vec<HookEv> {
    HOOK_LOG.lock().unwrap().clone()
}

/// bytes the server has taken off the socket of the connection with this peer port
pub fn consumed_by_server(port: u16) -> u64 {
    HOOK_LOG
        .lock()
        .unwrap()
        .iter()
        .filter(|e| (e.site == "conn.read" || e.site == "conn.skip") && e.nums[0] == port as u64)
        .map(|e| e.nums[1])
        .sum()
}

/// Claims a port for this process: the servers listen with SO_REUSEPORT, so two harness processes that find
/// the same port free at the same moment would both bind it and share its connections.  The claim is a
/// lock file created exclusively (it names the owner; a dead owner's claim is taken over).
fn claim_port(p: u16) -> bool {
    use std::io::Write as W;
    use std::os::unix::io::AsRawFd;
    let dir = std::path::Path::new("/tmp/mcverif-portlocks");
    let _ = std::fs::create_dir_all(dir);
    // every look at / change of the claim files happens under one advisory lock: taking over the claim of a dead owner
    // is "look, remove, create", and two processes doing that at the same time would both end up owning the port
    let guard = match std::fs::OpenOptions::new().write(true).create(true).open(dir.join(".lock")) {
        Ok(f) => f,
        Err(_) => return false,
    };
    if unsafe { libc::flock(guard.as_raw_fd(), libc::LOCK_EX) } != 0 {
        return false;
    }
    let path = dir.join(p.to_string());
    let mut mine = false;
    for _ in 0..2 {
        match std::fs::OpenOptions::new().write(true).create_new(true).open(&path) {
            Ok(mut f) => {
                let _ = write!(f, "{}", std::process::id());
                mine = true;
                break;
            }
            Err(_) => {
                let owner = std::fs::read_to_string(&path).ok().and_then(|s| s.trim().parse::<u32>().ok());
                match owner {
                    Some(pid) if pid == std::process::id() => break, // one port, one server per process
                    Some(pid) if std::path::Path::new(&format!("/proc/{}", pid)).exists() => break,
                    _ => {
                        let _ = std::fs::remove_file(&path);
                    }
                }
            }
        }
    }
    unsafe { libc::flock(guard.as_raw_fd(), libc::LOCK_UN) };
    mine
}

pub fn free_port(base: u16) -> u16 {
    let mut p = base;
    loop {
        if claim_port(p) {
            if let Ok(l) = TcpListener::bind(("127.0.0.1", p)) {
                drop(l);
                return p;
            }
        }
        p = if p >= 60000 { 20000 } else { p + 1 };
    }
}

pub struct Server {
    pub port: u16,
    pub timer: Arc<TestTimer>,
    pub mem: Arc<MemoryStore>,
    pub cache: Arc<dyn Cache + Send + Sync>,
}

/// Starts an in-process server on its own runtime thread.
pub fn start_server(port: u16, policy: &str, mem_limit: u64, item_limit: u32, conn_limit: u32, timeout_secs: u32, workers: usize) -> Server {
    let timer = Arc::new(TestTimer { now: AtomicU64::new(0) });
    let mem = Arc::new(MemoryStore::new(timer.clone()));
    let cache: Arc<dyn Cache + Send + Sync> = if policy == "random" {
        Arc::new(RandomPolicy::new(mem.clone(), mem_limit))
    } else {
        mem.clone()
    };
    let cfg = MemcacheServerConfig::new(timeout_secs, conn_limit, item_limit, 1024);
    let mut server = MemcacheTcpServer::new(cfg, cache.clone());
    let addr: SocketAddr = format!("127.0.0.1:{}", port).parse().unwrap();
    std::thread::spawn(move || {
        let rt = if workers == 0 {
            tokio::runtime::Builder::new_current_thread().enable_all().build().unwrap()
        } else {
            tokio::runtime::Builder::new_multi_thread().worker_threads(workers).enable_all().build().unwrap()
        };
        let _ = rt.block_on(server.run(addr));
    });
    // wait until it accepts
    let t0 = Instant::now();
    loop {
        if let Ok(s) = TcpStream::connect_timeout(&addr, Duration::from_millis(200)) {
            drop(s);
            break;
        }
        if t0.elapsed() > Duration::from_secs(5) {
            panic!("server did not start on port {}", port);
        }
        std::thread::sleep(Duration::from_millis(10));
    }
    // the probe connection occupies a slot until the server notices the close
    std::thread::sleep(Duration::from_millis(30));
    Server { port, timer, mem, cache }
}

pub struct Client {
    pub s: TcpStream,
    pub port: u16,
    pub sent: u64,
}

impl Client {
    pub fn connect(port: u16) -> std::io::Result<Client> {
        let addr: SocketAddr = format!("127.0.0.1:{}", port).parse().unwrap();
        let s = TcpStream::connect_timeout(&addr, Duration::from_secs(2))?;
        s.set_nodelay(true)?;
        // a server that has stopped reading must not hang the driver in a write
        s.set_write_timeout(Some(Duration::from_secs(8)))?;
        let lp = s.local_addr()?.port();
        Ok(Client { s, port: lp, sent: 0 })
    }

    /// writes a chunk and waits until the server has taken it off the socket (or `wait` elapsed)
    pub fn send_chunk(&mut self, b: &[u8], wait: Duration) -> bool {
        if self.s.write_all(b).is_err() {
            return false;
        }
        self.sent += b.len() as u64;
        let t0 = Instant::now();
        while consumed_by_server(self.port) < self.sent {
            if t0.elapsed() > wait {
                return false;
            }
            std::thread::sleep(Duration::from_micros(200));
        }
        true
    }

    /// reads until `stop` says the collected bytes are enough, EOF, or the deadline
    pub fn read_until(&mut self, deadline: Duration, stop: &dyn Fn(&[u8]) -> bool) -> (Vec<u8>, &'static str) {
        let t0 = Instant::now();
        let mut out = Vec::new();
        let mut buf = [0u8; 65536];
        loop {
            if stop(&out) {
                return (out, "done");
            }
            let left = deadline.checked_sub(t0.elapsed());
            let left = match left {
                Some(l) if l > Duration::from_millis(1) => l,
                _ => return (out, "timeout"),
            };
            let _ = self.s.set_read_timeout(Some(std::cmp::min(left, Duration::from_millis(100))));
            match self.s.read(&mut buf) {
                Ok(0) => return (out, "eof"),
                Ok(n) => out.extend_from_slice(&buf[..n]),
                Err(e) if e.kind() == std::io::ErrorKind::WouldBlock || e.kind() == std::io::ErrorKind::TimedOut => {}
                Err(_) => return (out, "reset"),
            }
        }
    }
}

/// has a complete response with this opaque arrived?
pub fn has_opaque(b: &[u8], opaque: u32) -> bool {
    let mut i = 0;
    while i + 24 <= b.len() {
        let bl = u32::from_be_bytes([b[i + 8], b[i + 9], b[i + 10], b[i + 11]]) as usize;
        let opq = u32::from_be_bytes([b[i + 12], b[i + 13], b[i + 14], b[i + 15]]);
        if i + 24 + bl > b.len() {
            return false;
        }
        if opq == opaque && b[i] == 0x81 {
            return true;
        }
        i += 24 + bl;
    }
    false
}

pub const SENTINEL: u32 = 0xfeed_beef;

pub fn cut(bytes: &[u8], seg: &[usize]) -> Vec<Vec<u8>> {
    let mut out = Vec::new();
    let mut at = 0;
    for n in seg {
        if at >= bytes.len() {
            break;
        }
        let e = std::cmp::min(at + n, bytes.len());
        if e > at {
            out.push(bytes[at..e].to_vec());
        }
        at = e;
    }
    if at < bytes.len() {
        out.push(bytes[at..].to_vec());
    }
    out
}

/// Sends a pipeline of frames in the given segmentation followed by a sentinel noop and collects
/// everything the server answers.  Returns (response bytes, how the reading ended, all chunks delivered)
pub fn exchange(port: u16, frames: &[Frame], seg: &[usize], sentinel: bool, wait_ms: u64) -> (Vec<u8>, &'static str, bool, u16) {
    let mut bytes = Vec::new();
    for f in frames {
        bytes.extend_from_slice(&f.bytes());
    }
    let mut c = match Client::connect(port) {
        Ok(c) => c,
        Err(_) => return (Vec::new(), "noconnect", false, 0),
    };
    let mut delivered = true;
    for ch in cut(&bytes, seg) {
        // (once the server has stopped taking input - it closed the connection - there is nothing to wait for)
        if !c.send_chunk(&ch, Duration::from_millis(if delivered { wait_ms } else { 1 })) {
            delivered = false;
        }
    }
    if sentinel {
        let s = Frame::consistent(0x0a, &[], &[], &[], SENTINEL, 0);
        let _ = c.s.write_all(&s.bytes());
    }
    let (resp, how) = c.read_until(Duration::from_millis(6000), &|b| sentinel && has_opaque(b, SENTINEL));
    let lp = c.port;
    let _ = c.s.shutdown(Shutdown::Both);
    (resp, how, delivered, lp)
}

// ---------------------------------------------------------------------------------------------
// programs (histories of abstract commands) over a socket

/// Runs the commands of a history over one connection.  `pipeline` > 1 sends that many commands per
/// batch (cut into `seg`-sized chunks) before reading; responses are matched to commands by opaque.
/// Produces `cmd` events without physical observations (obs=false).
pub fn run_history_tcp(h: &History, srv: &Server, out: &mut dyn Write, hist_no: usize, pipeline: usize, chunk: usize) -> usize {
    let mut tokens = Tokens::default();
    let mut events = 1;
    writeln!(out, "{}", json!({"e": "reset", "h": hist_no, "name": h.name, "obs": false, "phys": false,
        "cfg": {"policy": h.cfg.policy, "L": std::cmp::min(h.cfg.mem_limit, 1 << 30), "limit": h.cfg.item_limit},
        "keys": h.keys.iter().map(|k| hex(k)).collect::<Vec<_>>()})).unwrap();
    let mut c = Client::connect(srv.port).expect("connect");
    let mut batch: Vec<(Value, Frame)> = Vec::new();
    let mut opq_fix: u32 = 1;
    let batch_no = std::cell::Cell::new(0u64);
    let flush_batch = |batch: &mut Vec<(Value, Frame)>, c: &mut Client, tokens: &mut Tokens, out: &mut dyn Write, events: &mut usize, h: &History| {
        if batch.is_empty() {
            return;
        }
        batch_no.set(batch_no.get() + 1);
        let mut bytes = Vec::new();
        for (_, f) in batch.iter() {
            bytes.extend_from_slice(&f.bytes());
        }
        let seg: Vec<usize> = if chunk == 0 { vec![bytes.len()] } else { vec![chunk; bytes.len() / chunk + 1] };
        for ch in cut(&bytes, &seg) {
            c.send_chunk(&ch, Duration::from_millis(50));
        }
        let s = Frame::consistent(0x0a, &[], &[], &[], SENTINEL, 0);
        let _ = c.s.write_all(&s.bytes());
        let (resp, how) = c.read_until(Duration::from_millis(6000), &|b| has_opaque(b, SENTINEL));
        let rs = parse_responses(&resp);
        // match by opaque, keep arrival order index
        let mut used = vec![false; rs.len()];
        for (ev, f) in batch.iter_mut() {
            let mut mine = Vec::new();
            for (i, r) in rs.iter().enumerate() {
                if !used[i] && r["opq"].as_str() == Some(&f.opaque.to_string()) {
                    used[i] = true;
                    let mut r2 = r.clone();
                    r2["ri"] = json!(i);
                    mine.push(r2);
                }
            }
            let o = ev.as_object_mut().unwrap();
            o.insert("dec".into(), json!("frame"));
            o.insert("panic".into(), json!(false));
            o.insert("r".into(), json!(mine));
            o.insert("present".into(), json!([]));
            o.insert("bytes".into(), json!(0));
            o.insert("usage".into(), json!(""));
            o.insert("how".into(), json!(how));
            o.insert("bi".into(), json!(batch_no.get()));
        }
        for (ev, f) in batch.iter() {
            let key = crate::proto::unhex(ev["k"].as_str().unwrap_or(""));
            let rsv: Vec<Value> = ev["r"].as_array().cloned().unwrap_or_default();
            tokens.learn(&key, &rsv);
            let _ = f;
            writeln!(out, "{}", ev).unwrap();
            *events += 1;
        }
        // anything that belongs to no command (other than the sentinel's answer)
        let stray: Vec<Value> = rs.iter().enumerate()
            .filter(|(i, r)| !used[*i] && r["opq"].as_str() != Some(&SENTINEL.to_string()))
            .map(|(_, r)| r.clone()).collect();
        if !stray.is_empty() || how != "done" {
            writeln!(out, "{}", json!({"e": "stray", "r": stray, "how": how})).unwrap();
            *events += 1;
        }
        let _ = h;
        batch.clear();
    };
    for s in &h.steps {
        match s {
            Step::Tick(t) => {
                flush_batch(&mut batch, &mut c, &mut tokens, out, &mut events, h);
                srv.timer.now.store(*t, Ordering::SeqCst);
                writeln!(out, "{}", json!({"e": "tick", "to": t})).unwrap();
                events += 1;
            }
            Step::Cmd(cmd) => {
                // symbolic CAS arguments need the answers of the commands before them
                if cmd.cas != crate::prog::CasSpec::Lit(0) && !matches!(cmd.cas, crate::prog::CasSpec::Lit(_)) {
                    flush_batch(&mut batch, &mut c, &mut tokens, out, &mut events, h);
                }
                let cas = tokens.concretise(&cmd.key, &cmd.cas);
                let mut cmd2 = cmd.clone();
                // opaques must be unique per connection to match answers
                opq_fix += 1;
                cmd2.opaque = opq_fix;
                if cmd2.op == "quit" {
                    continue;
                }
                let fr = frame_of(&cmd2, cas);
                let ev = cmd_event(&cmd2, cas, &fr);
                batch.push((ev, fr));
                if batch.len() >= pipeline {
                    flush_batch(&mut batch, &mut c, &mut tokens, out, &mut events, h);
                }
            }
        }
    }
    flush_batch(&mut batch, &mut c, &mut tokens, out, &mut events, h);
    let _ = c.s.shutdown(Shutdown::Both);
    events
}

// ---------------------------------------------------------------------------------------------
// frame-level streams over a socket (C09 C12 C13 at the socket)

pub fn reset_store(srv: &Server) {
    srv.cache.flush(memcrs::cache::cache::CacheMetaData::new(0, 0, 0));
    srv.timer.now.store(0, Ordering::SeqCst);
}

pub fn snapshot_json(srv: &Server) -> Value {
    let mut snap = srv.mem.verif_snapshot();
    snap.sort_by(|a, b| a.0.cmp(&b.0));
    json!(snap.iter().map(|(k, _ts, _cas, f, ttl, v)| json!({"k": hex(k), "v": hex(v), "f": f.to_string(), "ttl": ttl})).collect::<Vec<_>>())
}

/// One universe of a frame stream over a socket.
pub fn run_stream_universe(srv: &Server, frames: &[Frame], seg: &[usize], u: usize, sentinel: bool, out: &mut dyn Write) -> usize {
    reset_store(srv);
    HOOK_LOG.lock().unwrap().clear();
    let segdesc = if seg.len() > 8 { format!("{} chunks, first {:?}", seg.len(), &seg[..4]) } else { format!("{:?}", seg) };
    let panics0 = PANICS.load(Ordering::SeqCst);
    let (resp, how, delivered, lport) = exchange(srv.port, frames, seg, sentinel, 60);
    // what the server actually read, per read call (the segmentation that really happened)
    let reads: Vec<u64> = hook_snapshot().iter().filter(|e| e.site == "conn.read" && e.nums[0] == lport as u64).map(|e| e.nums[1]).collect();
    let maxcap: u64 = hook_snapshot().iter().filter(|e| e.site == "conn.read" && e.nums[0] == lport as u64).map(|e| e.nums[3]).max().unwrap_or(0);
    let rs = parse_responses(&resp);
    // give the server a moment to finish a connection it is closing
    if how != "done" {
        std::thread::sleep(Duration::from_millis(5));
    }
    if how == "timeout" {
        TIMEOUTS.fetch_add(1, Ordering::SeqCst);
    }
    // the CAS counter is not reset between universes: compare the answers with the CAS field blanked
    let mut masked = resp.clone();
    let mut i = 0;
    while i + 24 <= masked.len() {
        let bl = u32::from_be_bytes([masked[i + 8], masked[i + 9], masked[i + 10], masked[i + 11]]) as usize;
        for b in masked[i + 16..i + 24].iter_mut() {
            *b = 0;
        }
        i += 24 + bl;
    }
    writeln!(out, "{}", json!({"e": "trun", "u": u, "seg": segdesc, "how": how, "delivered": delivered,
        "r": rs, "resp": hex(&masked), "store": snapshot_json(srv), "nreads": reads.len(), "maxcap": maxcap,
        "panics": PANICS.load(Ordering::SeqCst) - panics0})).unwrap();
    1
}

/// One universe of a (possibly truncated) byte stream: deliver the chunks, then - if the whole stream was
/// sent - a sentinel noop, else half-close; collect the answers until EOF / sentinel / silence.
pub fn run_cut_universe(srv: &Server, bytes: &[u8], seg: &[usize], u: usize, complete: bool, out: &mut dyn Write) -> usize {
    reset_store(srv);
    HOOK_LOG.lock().unwrap().clear();
    let panics0 = PANICS.load(Ordering::SeqCst);
    let mut c = match Client::connect(srv.port) {
        Ok(c) => c,
        Err(_) => return 0,
    };
    let mut delivered = true;
    for ch in cut(bytes, seg) {
        if !c.send_chunk(&ch, Duration::from_millis(if delivered { 60 } else { 1 })) {
            delivered = false;
        }
    }
    if complete {
        let s = Frame::consistent(0x0a, &[], &[], &[], SENTINEL, 0);
        let _ = c.s.write_all(&s.bytes());
    } else {
        let _ = c.s.shutdown(Shutdown::Write);
    }
    let (resp, how) = c.read_until(Duration::from_millis(6000), &|b| complete && has_opaque(b, SENTINEL));
    let lport = c.port;
    let _ = c.s.shutdown(Shutdown::Both);
    if how != "done" {
        std::thread::sleep(Duration::from_millis(5));
    }
    if how == "timeout" {
        TIMEOUTS.fetch_add(1, Ordering::SeqCst);
    }
    let maxcap: u64 = hook_snapshot().iter().filter(|e| e.site == "conn.read" && e.nums[0] == lport as u64).map(|e| e.nums[3]).max().unwrap_or(0);
    let nreads = hook_snapshot().iter().filter(|e| e.site == "conn.read" && e.nums[0] == lport as u64).count();
    let rs = parse_responses(&resp);
    let mut masked = resp.clone();
    let mut i = 0;
    while i + 24 <= masked.len() {
        let bl = u32::from_be_bytes([masked[i + 8], masked[i + 9], masked[i + 10], masked[i + 11]]) as usize;
        let e = std::cmp::min(i + 24, masked.len());
        for b in masked[i + 16..e].iter_mut() {
            *b = 0;
        }
        i += 24 + bl;
    }
    let segdesc = if seg.len() > 8 { format!("{} chunks, first {:?}", seg.len(), &seg[..4]) } else { format!("{:?}", seg) };
    writeln!(out, "{}", json!({"e": "trun", "u": u, "seg": segdesc, "how": how, "delivered": delivered, "complete": complete,
        "r": rs, "resp": hex(&masked), "store": snapshot_json(srv), "nreads": nreads, "maxcap": maxcap,
        "panics": PANICS.load(Ordering::SeqCst) - panics0})).unwrap();
    1
}

// ---------------------------------------------------------------------------------------------
// slow readers: responses larger than the socket buffers, read late / in drips (back-pressure on the
// server's write path).  The events are compact: long values are replaced by a digest and their length.

fn fnv(b: &[u8]) -> String {
    let mut h: u64 = 0xcbf29ce484222325;
    for x in b {
        h ^= *x as u64;
        h = h.wrapping_mul(0x100000001b3);
    }
    format!("{:016x}", h)
}

/// replaces a long hex value by "#<digest>" and records its length in bytes as "vl"
fn compact_value(r: &mut Value, field: &str) {
    let v = r[field].as_str().unwrap_or("").to_string();
    let n = v.len() / 2;
    r["vl"] = json!(n);
    if n > 64 {
        r[field] = json!(format!("#{}", fnv(v.as_bytes())));
    }
}

/// One universe of a frame stream whose answers exceed the socket buffers.  `mode`:
///   "attentive"  the client reads while the server answers
///   "late"       small receive buffer, nothing is read for 1.5 s, then everything
///   "drip"       small receive buffer, 16 KiB reads with pauses
///   "stalled"    small receive buffer, nothing is read for 4.5 s (the server's timeout is 2 s)
pub fn run_slow_universe(srv: &Server, frames: &[Frame], mode: &str, u: usize, out: &mut dyn Write) -> usize {
    use std::io::Read as R;
    use std::io::Write as W;
    reset_store(srv);
    HOOK_LOG.lock().unwrap().clear();
    let panics0 = PANICS.load(Ordering::SeqCst);
    let mut bytes = Vec::new();
    for f in frames {
        bytes.extend_from_slice(&f.bytes());
    }
    // (nothing behind a quit: the server would close with unread input, which makes the kernel reset the connection)
    let ends_with_quit = frames.last().map(|f| f.opcode == 0x07 && f.magic == 0x80).unwrap_or(false);
    if !ends_with_quit {
        bytes.extend_from_slice(&Frame::consistent(0x0a, &[], &[], &[], SENTINEL, 0).bytes());
    }
    let sock = socket2::Socket::new(socket2::Domain::IPV4, socket2::Type::STREAM, None).unwrap();
    if mode != "attentive" {
        let _ = sock.set_recv_buffer_size(8192);
    }
    let addr: SocketAddr = format!("127.0.0.1:{}", srv.port).parse().unwrap();
    if sock.connect(&addr.into()).is_err() {
        return 0;
    }
    let mut s: TcpStream = sock.into();
    let _ = s.set_nodelay(true);
    let lport = s.local_addr().map(|a| a.port()).unwrap_or(0);
    // the requests are written by a thread of their own: the server stops reading while it cannot write
    let mut w = s.try_clone().unwrap();
    let writer = std::thread::spawn(move || w.write_all(&bytes).is_ok());
    if mode == "late" {
        std::thread::sleep(Duration::from_millis(1500));
    }
    if mode == "stalled" {
        // longer than the server's (2 s) timeout: a write that waits for the client is not an idle connection
        std::thread::sleep(Duration::from_millis(4500));
    }
    let t0 = Instant::now();
    let mut resp: Vec<u8> = Vec::new();
    let mut buf = vec![0u8; if mode == "drip" { 16384 } else { 1 << 16 }];
    let mut how = "timeout";
    let mut scanned = 0usize; // start of the first frame not yet known to be complete
    while t0.elapsed() < Duration::from_secs(30) {
        // has the sentinel's answer arrived? (incremental scan)
        let mut done = false;
        while scanned + 24 <= resp.len() {
            let bl = u32::from_be_bytes([resp[scanned + 8], resp[scanned + 9], resp[scanned + 10], resp[scanned + 11]]) as usize;
            if scanned + 24 + bl > resp.len() {
                break;
            }
            let opq = u32::from_be_bytes([resp[scanned + 12], resp[scanned + 13], resp[scanned + 14], resp[scanned + 15]]);
            if opq == SENTINEL && resp[scanned] == 0x81 {
                done = true;
            }
            scanned += 24 + bl;
        }
        if done {
            how = "done";
            break;
        }
        let _ = s.set_read_timeout(Some(Duration::from_millis(if resp.is_empty() { 6000 } else { 3000 })));
        match s.read(&mut buf) {
            Ok(0) => {
                how = "eof";
                break;
            }
            Ok(n) => resp.extend_from_slice(&buf[..n]),
            Err(e) if e.kind() == std::io::ErrorKind::WouldBlock || e.kind() == std::io::ErrorKind::TimedOut => {
                how = "timeout";
                break;
            }
            Err(_) => {
                how = "reset";
                break;
            }
        }
        if mode == "drip" {
            std::thread::sleep(Duration::from_micros(300));
        }
    }
    let _ = s.shutdown(Shutdown::Both);
    let delivered = writer.join().unwrap_or(false);
    if how != "done" {
        std::thread::sleep(Duration::from_millis(5));
    }
    let maxcap: u64 = hook_snapshot().iter().filter(|e| e.site == "conn.read" && e.nums[0] == lport as u64).map(|e| e.nums[3]).max().unwrap_or(0);
    let nreads = hook_snapshot().iter().filter(|e| e.site == "conn.read" && e.nums[0] == lport as u64).count();
    let mut rs = parse_responses(&resp);
    for r in rs.iter_mut() {
        compact_value(r, "v");
        if r["raw"].as_str().map(|x| x.len()).unwrap_or(0) > 128 {
            r["raw"] = json!("#long");
        }
    }
    let mut masked = resp.clone();
    let mut i = 0;
    while i + 24 <= masked.len() {
        let bl = u32::from_be_bytes([masked[i + 8], masked[i + 9], masked[i + 10], masked[i + 11]]) as usize;
        for b in masked[i + 16..i + 24].iter_mut() {
            *b = 0;
        }
        i += 24 + bl;
    }
    let mut store = snapshot_json(srv);
    if let Some(a) = store.as_array_mut() {
        for x in a.iter_mut() {
            compact_value(x, "v");
        }
    }
    writeln!(out, "{}", json!({"e": "trun", "u": u, "seg": mode, "slow": mode, "how": how, "delivered": delivered,
        "r": rs, "resp": format!("#{}:{}", masked.len(), fnv(&masked)), "store": store, "nreads": nreads, "maxcap": maxcap,
        "panics": PANICS.load(Ordering::SeqCst) - panics0})).unwrap();
    1
}
