CONSTANT MaxU = "18446744073709551615"
SPECIFICATION Spec
INVARIANT Report
POSTCONDITION Accepted
CHECK_DEADLOCK FALSE
