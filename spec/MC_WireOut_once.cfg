CONSTANTS
  Sizes <- SizesSmall
  SndBuf = 2
  WriteAll = FALSE
SPECIFICATION Spec
INVARIANT StreamOK
INVARIANT Bounded
PROPERTY AllDelivered
CHECK_DEADLOCK FALSE
