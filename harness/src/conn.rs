//! Connection-limit driver (C17): sequences of connection lifecycles against an in-process server.
use crate::proto::{parse_responses, Frame};
use crate::tcp::{self, Client};
use rand::rngs::SmallRng;
use rand::seq::SliceRandom;
use rand::Rng;
use serde_json::{json, Value};
use std::io::{Read, Write};
use std::net::Shutdown;
use std::time::{Duration, Instant};

pub const WAYS: [&str; 9] = ["close", "quit", "quitq", "midrequest", "protoerr", "oversize", "idle", "idlemid", "reset"];

struct Conn {
    id: u64,
    c: Client,
    answered: bool,
    ended: bool,
}

fn seq() -> u64 {
    memcrs::verif::next_seq()
}

/// has the answer to the connection's probe noop arrived (waits up to `wait`)?
fn poll_answer(c: &mut Conn, wait: Duration) -> bool {
    if c.answered {
        return true;
    }
    let t0 = Instant::now();
    let mut buf = [0u8; 64];
    loop {
        let _ = c.c.s.set_read_timeout(Some(Duration::from_millis(20)));
        match c.c.s.read(&mut buf) {
            Ok(n) if n >= 24 => {
                c.answered = true;
                return true;
            }
            Ok(0) => return false,
            _ => {}
        }
        if t0.elapsed() >= wait {
            return false;
        }
    }
}

fn read_eof(c: &mut Client, wait: Duration) -> (Vec<u8>, bool) {
    let (b, how) = c.read_until(wait, &|_| false);
    (b, how == "eof" || how == "reset")
}

pub fn gen_scenario(rng: &mut SmallRng, limit: u32) -> Value {
    let n = rng.gen_range(limit as usize + 2..=limit as usize * 4 + 6);
    let mut steps = Vec::new();
    let mut open: Vec<u64> = Vec::new();
    let mut next = 1u64;
    let mut budget = n;
    let mut idles = 0;
    let mut queued_reset_done = false;
    while budget > 0 || !open.is_empty() {
        // every scenario has a client that resets while it waits for a slot (server full, it is the newest waiter)
        if !queued_reset_done && open.len() >= limit as usize + 2 {
            let id = open.pop().unwrap();
            steps.push(json!({"a": "end", "id": id, "way": "reset"}));
            queued_reset_done = true;
            continue;
        }
        let can_open = budget > 0 && open.len() < limit as usize + 3;
        if can_open && (open.is_empty() || rng.gen_bool(0.55)) {
            steps.push(json!({"a": "connect", "id": next}));
            open.push(next);
            next += 1;
            budget -= 1;
        } else {
            // end a connection: mostly one that is being served (the oldest ones), sometimes a waiting one
            let i = if rng.gen_bool(0.8) { rng.gen_range(0..std::cmp::min(open.len(), limit as usize)) } else { rng.gen_range(0..open.len()) };
            let id = open.remove(i);
            // (a waiting client just goes away: orderly, or with a reset - it may still sit in the listen queue then)
            let mut way = if i >= limit as usize { if rng.gen_bool(0.5) { "close" } else { "reset" } } else { *WAYS.choose(rng).unwrap() };
            // every scenario has both kinds of idle ending (they are the slow ones: once each, first)
            if i < limit as usize && idles == 0 {
                way = "idlemid";
            } else if i < limit as usize && idles == 1 {
                way = "idle";
            }
            // waiting for the receive timeout is slow: at most two such endings per scenario
            if way == "idle" || way == "idlemid" {
                if idles >= 2 { way = "quit"; } else { idles += 1; }
            }
            steps.push(json!({"a": "end", "id": id, "way": way}));
        }
    }
    json!({"limit": limit, "timeout": 2, "steps": steps})
}

pub fn run_scenario(sc: &Value, port_base: u16, out: &mut dyn Write, no: usize) -> usize {
    let limit = sc["limit"].as_u64().unwrap_or(2) as u32;
    let timeout = sc["timeout"].as_u64().unwrap_or(1) as u32;
    tcp::HOOK_LOG.lock().unwrap().clear();
    let srv = tcp::start_server(tcp::free_port(port_base), "none", 0, 1024, limit, timeout, 2);
    // the start-up probe connection of start_server has come and gone: wait until its permit is back
    std::thread::sleep(Duration::from_millis(50));
    run_scenario_on(sc, srv.port, true, out, no)
}

/// Runs a scenario against the server listening on `port`; `hooks`: semaphore hook events are available
/// (in-process server) and are merged into the trace.
pub fn run_scenario_on(sc: &Value, port: u16, hooks: bool, out: &mut dyn Write, no: usize) -> usize {
    let limit = sc["limit"].as_u64().unwrap_or(2) as u32;
    let timeout = sc["timeout"].as_u64().unwrap_or(1) as u32;
    let item_limit = sc["item_limit"].as_u64().unwrap_or(1024) as u32;
    struct P { port: u16 }
    let srv = P { port };
    tcp::HOOK_LOG.lock().unwrap().clear();
    let mut evs: Vec<(u64, Value)> = Vec::new();
    evs.push((seq(), json!({"e": "scenario", "no": no, "limit": limit, "timeout": timeout, "hooks": hooks})));
    let mut conns: Vec<Conn> = Vec::new();
    let settle = Duration::from_millis(150);
    let empty = Vec::new();
    let mut steps: Vec<Value> = sc["steps"].as_array().unwrap_or(&empty).clone();
    // epilogue: end everything, then limit + 1 fresh connections
    steps.push(json!({"a": "endall"}));
    for i in 0..=limit as u64 {
        steps.push(json!({"a": "connect", "id": 1000 + i}));
    }
    steps.push(json!({"a": "endall"}));
    for st in steps {
        match st["a"].as_str().unwrap_or("") {
            "connect" => {
                let id = st["id"].as_u64().unwrap();
                // the sequence number is taken before connecting: the server may accept (and log its
                // acquire) before connect() has returned here
                let open_seq = seq();
                let mut c = match Client::connect(srv.port) {
                    Ok(c) => c,
                    Err(_) => {
                        evs.push((seq(), json!({"e": "connfail", "id": id})));
                        continue;
                    }
                };
                evs.push((open_seq, json!({"e": "open", "id": id, "port": c.port})));
                let noop = Frame::consistent(0x0a, &[], &[], &[], id as u32, 0);
                let _ = c.s.write_all(&noop.bytes());
                let mut conn = Conn { id, c, answered: false, ended: false };
                // a fresh connection on a server with free slots gets a generous window (it must be served); the
                // others are only classified (served now / waiting)
                let window = if id >= 1000 && id < 1000 + limit as u64 { Duration::from_millis(4000) } else { settle };
                if poll_answer(&mut conn, window) {
                    evs.push((seq(), json!({"e": "answered", "id": id})));
                } else {
                    evs.push((seq(), json!({"e": "silent", "id": id})));
                }
                conns.push(conn);
            }
            "end" | "endall" => {
                let ids: Vec<u64> = if st["a"] == "endall" {
                    conns.iter().filter(|c| !c.ended).map(|c| c.id).collect()
                } else {
                    vec![st["id"].as_u64().unwrap()]
                };
                for id in ids {
                    let way = st["way"].as_str().unwrap_or("close").to_string();
                    let idx = match conns.iter().position(|c| c.id == id && !c.ended) {
                        Some(i) => i,
                        None => continue,
                    };
                    let was_answered = conns[idx].answered;
                    let way = if was_answered || way == "reset" { way } else { "close".to_string() };
                    let mut ok = true;
                    {
                        let c = &mut conns[idx].c;
                        match way.as_str() {
                            "quit" => {
                                let _ = c.s.write_all(&Frame::consistent(0x07, &[], &[], &[], 7, 0).bytes());
                                let (b, eof) = read_eof(c, Duration::from_millis(5000));
                                ok = eof && parse_responses(&b).len() == 1;
                            }
                            "quitq" => {
                                let _ = c.s.write_all(&Frame::consistent(0x17, &[], &[], &[], 7, 0).bytes());
                                let (b, eof) = read_eof(c, Duration::from_millis(5000));
                                ok = eof && b.is_empty();
                            }
                            "midrequest" => {
                                let f = Frame::consistent(0x01, &[0u8; 8], b"key", &[b'v'; 40], 9, 0).bytes();
                                let _ = c.s.write_all(&f[..40]);
                                std::thread::sleep(Duration::from_millis(20));
                                let _ = c.s.shutdown(Shutdown::Both);
                            }
                            "protoerr" => {
                                let _ = c.s.write_all(&[0xffu8; 24]);
                                let (_b, eof) = read_eof(c, Duration::from_millis(5000));
                                ok = eof;
                            }
                            "oversize" => {
                                let mut rng: SmallRng = rand::SeedableRng::seed_from_u64(id);
                                let f = crate::tcpgen::oversize_frame(&mut rng, 11, item_limit, item_limit + 50);
                                let _ = c.s.write_all(&f.bytes());
                                let (b, _how) = c.read_until(Duration::from_millis(5000), &|b| tcp::has_opaque(b, 11));
                                ok = parse_responses(&b).iter().any(|r| r["st"].as_u64() == Some(3));
                                let _ = c.s.shutdown(Shutdown::Both);
                            }
                            "idlemid" => {
                                // a complete request and the beginning of the next one in one write, then silence with the
                                // socket open: the receive timeout must end this connection as well
                                let mut b = Frame::consistent(0x0a, &[], &[], &[], 21, 0).bytes();
                                b.extend_from_slice(&Frame::consistent(0x0a, &[], &[], &[], 22, 0).bytes()[..10]);
                                let _ = c.s.write_all(&b);
                                let (_b, eof) = read_eof(c, Duration::from_millis(timeout as u64 * 1000 + 5000));
                                ok = eof;
                            }
                            "idle" => {
                                // say nothing: the server's receive timeout ends the connection
                                let (_b, eof) = read_eof(c, Duration::from_millis(timeout as u64 * 1000 + 5000));
                                ok = eof;
                            }
                            "reset" => {
                                // SO_LINGER 0: closing sends RST instead of FIN
                                let sock = socket2::SockRef::from(&c.s);
                                let _ = sock.set_linger(Some(Duration::from_secs(0)));
                            }
                            _ => {
                                let _ = c.s.shutdown(Shutdown::Both);
                            }
                        }
                    }
                    if way == "reset" {
                        // really close the descriptor (the Conn keeps its Client): swap in a socket connected to a
                        // throw-away listener of our own
                        if let Ok(l) = std::net::TcpListener::bind("127.0.0.1:0") {
                            if let Ok(dummy) = std::net::TcpStream::connect(l.local_addr().unwrap()) {
                                let old = std::mem::replace(&mut conns[idx].c.s, dummy);
                                drop(old);
                            }
                        }
                        std::thread::sleep(Duration::from_millis(20));
                    }
                    conns[idx].ended = true;
                    evs.push((seq(), json!({"e": "end", "id": id, "way": way, "ok": ok, "served": was_answered})));
                    // a freed slot must be taken by a waiting connection (if any) within 2 s
                    let waiting: Vec<usize> = conns.iter().enumerate().filter(|(_, c)| !c.ended && !c.answered).map(|(i, _)| i).collect();
                    if was_answered && !waiting.is_empty() {
                        let t0 = Instant::now();
                        let mut got = None;
                        while got.is_none() && t0.elapsed() < Duration::from_millis(5000) {
                            for &i in &waiting {
                                if poll_answer(&mut conns[i], Duration::from_millis(10)) {
                                    got = Some(conns[i].id);
                                    break;
                                }
                            }
                        }
                        match got {
                            Some(g) => evs.push((seq(), json!({"e": "answered", "id": g}))),
                            None => evs.push((seq(), json!({"e": "starved", "waiting": waiting.len()}))),
                        }
                    } else {
                        std::thread::sleep(Duration::from_millis(30));
                    }
                }
                // anybody else answered meanwhile?
                for c in conns.iter_mut() {
                    if !c.ended && !c.answered && poll_answer(c, Duration::from_millis(5)) {
                        evs.push((seq(), json!({"e": "answered", "id": c.id})));
                    }
                }
            }
            _ => {}
        }
    }
    std::thread::sleep(Duration::from_millis(150));
    evs.push((seq(), json!({"e": "finish"})));
    for h in tcp::hook_snapshot() {
        if !hooks {
            break;
        }
        if h.site == "sem.acquire" {
            evs.push((h.seq, json!({"e": "acq", "port": h.nums[0], "avail": h.nums[1], "sem": h.nums[2].to_string()})));
        } else if h.site == "sem.release" {
            evs.push((h.seq, json!({"e": "rel", "port": h.nums[0], "avail": h.nums[1], "sem": h.nums[2].to_string()})));
        }
    }
    evs.sort_by_key(|x| x.0);
    let n = evs.len();
    for (s, mut e) in evs {
        e["seq"] = json!(s);
        writeln!(out, "{}", e).unwrap();
    }
    n
}
