---------------------------- MODULE MemcContract ----------------------------
(***************************************************************************)
(* The CONTRACT of the memcached command set as the listed properties      *)
(* state it (C01 C02 C05 C06 C07 C08 C11 C13 C14 C15 C19): what a client   *)
(* may rely on, and nothing more.  It is written to be bound to observed   *)
(* executions: `Judge(s, e)` takes the contract state `s` and one observed *)
(* command event `e` (request as sent, responses as received, physical key *)
(* set and stored bytes as observed) and returns the set of property tags  *)
(* the event violates together with the successor state.  Where the        *)
(* properties are silent the contract accepts every listed outcome and     *)
(* follows the one the implementation acknowledged (DESIGN.md 4a, G1-G17). *)
(*                                                                         *)
(* The same operator is used (a) by MemcTrace to validate recorded         *)
(* executions of the real crate and (b) by MC_Store as the refinement      *)
(* target of the model of the code (MemcStore), exhaustively for small     *)
(* constants.                                                              *)
(***************************************************************************)
EXTENDS Naturals, Sequences, FiniteSets, TLC, U64

CONSTANT MaxU      \* largest unsigned value: U64Max for traces, "9" in exhaustive runs

Inf  == 2000000000                  \* "never" (clocks stay below 2^29, TTLs are clipped to 2^30)
Wild == "?"                         \* a CAS / flags value not yet revealed (quiet success)

NoItem == [p |-> FALSE, val |-> "", flags |-> "", cas |-> "", dlMin |-> 0, dlMax |-> 0,
           ttls |-> {}, fl |-> FALSE, by |-> "", byq |-> FALSE]

StatusTable == {0, 1, 2, 3, 4, 5, 6, 32, 33, 129, 130, 131, 132, 133, 134}

Min(a, b) == IF a < b THEN a ELSE b
Max(a, b) == IF a > b THEN a ELSE b
SeqRange(q) == {q[i] : i \in 1..Len(q)}
Dl(now, ttl) == IF ttl = 0 THEN Inf ELSE Min(now + ttl, Inf)

StoreOps   == {"set", "add", "replace"}
ConcatOps  == {"append", "prepend"}
DeltaOps   == {"incr", "decr"}
KeyedOps   == StoreOps \cup ConcatOps \cup DeltaOps \cup {"get", "delete"}
PlainOps   == {"noop", "version", "stat"}
UnimplOps  == {"touch", "gat", "sasl_list", "sasl_auth", "sasl_step"}

(***************************************************************************)
(* State                                                                   *)
(***************************************************************************)
InitState(keys, policy, L, limit, obs) ==
    [ now     |-> 0,
      keys    |-> keys,
      item    |-> [k \in keys |-> NoItem],
      ghost   |-> {},                          \* expired, possibly still physically there
      gone    |-> [k \in keys |-> "never"],    \* why the key is absent
      carried |-> [k \in keys |-> {}],         \* CAS values of the current lifetime
      born    |-> [k \in keys |-> FALSE],      \* lifetime begun by a CAS-carrying store (exempt, C02)
      policy  |-> policy, L |-> L, limit |-> limit,
      lastSize |-> 0,                          \* size of the record of the last store attempt
      bytes   |-> 0,                           \* stored bytes as last observed
      usage   |-> "0",                         \* accounted bytes as last observed (hook)
      obs     |-> obs ]                        \* physical observations available?

Zone(s, k) == LET it == s.item[k] IN
              IF ~it.p THEN "absent"
              ELSE IF s.now < it.dlMin THEN "live"
              ELSE IF s.now < it.dlMax THEN "maybe"
              ELSE "dead"

Gone(s, k, why) == [s EXCEPT !.item[k] = NoItem, !.gone[k] = why]

(* the clock moves: items past their latest deadline are absent from now on *)
Tick(s, to) ==
    LET s1 == [s EXCEPT !.now = to]
        dead == {k \in s.keys : Zone(s1, k) = "dead"}
    IN  [s1 EXCEPT !.item  = [k \in s.keys |-> IF k \in dead THEN NoItem ELSE s.item[k]],
                   !.gone  = [k \in s.keys |-> IF k \in dead
                                               THEN (IF s.item[k].fl THEN "flushed" ELSE "expired")
                                               ELSE s.gone[k]],
                   !.ghost = s.ghost \cup dead]

(***************************************************************************)
(* Reading an observed event                                               *)
(***************************************************************************)
Silent(e)     == Len(e.r) = 0
Status(e, st) == Len(e.r) = 1 /\ e.r[1].st = st
Acked(e)      == IF e.q THEN Silent(e) ELSE Status(e, 0)      \* success of a mutation
Missed(e)     == IF e.q THEN Silent(e) ELSE Status(e, 1)      \* miss of a retrieval
AckCas(e)     == IF Silent(e) THEN Wild ELSE e.r[1].cas
Cond(e)       == e.cas # "0"
CasEq(c, d)   == c = Wild \/ c = d
CasNe(c, d)   == c = Wild \/ c # d
Fresh(s, k, c) == c = Wild \/ s.born[k] \/ c \notin s.carried[k]

OK(st, rule)        == [tags |-> {}, st |-> st, rule |-> rule, notes |-> {}]
Bad(tags, s, rule)  == [tags |-> tags, st |-> s, rule |-> rule, notes |-> {}]

WhyTags(why) == CASE why = "expired" -> {"C05"}
                  [] why = "flushed" -> {"C08", "C05"}
                  [] why = "deleted" -> {"C08"}
                  [] why = "evicted" -> {"C01"}
                  [] why = "nocreate" -> {"C07"}
                  [] OTHER -> {"C01"}
ByTags(by) == CASE by \in {"add", "replace"} \cup ConcatOps -> {"C06"}
                [] by \in DeltaOps -> {"C07"}
                [] OTHER -> {}
QTags(e, it) == IF e.q \/ it.byq THEN {"C19"} ELSE {}

(***************************************************************************)
(* C11: every response is a well-formed, correctly correlated frame        *)
(***************************************************************************)
WellFormed(e, r) ==
    /\ r.short = 0 /\ r.magic = 129 /\ r.op = e.opc /\ r.opq = e.opq /\ r.dt = 0
    /\ r.st \in StatusTable
    /\ r.bl = r.al
    /\ Len(r.x) = 2 * r.el /\ Len(r.key) = 2 * r.kl
    /\ r.bl = r.el + r.kl + (Len(r.v) \div 2)
    /\ IF r.st # 0 THEN r.el = 0 /\ r.kl = 0 /\ Len(r.v) > 0            \* the message text
       ELSE IF e.op = "get" THEN /\ r.el = 4
                                 /\ r.key = (IF e.gk THEN e.k ELSE "")
       ELSE IF e.op \in DeltaOps THEN r.el = 0 /\ r.kl = 0 /\ Len(r.v) = 16
       ELSE IF e.op \in {"version", "stat"} \cup UnimplOps THEN r.el = 0 /\ r.kl = 0
       ELSE r.bl = 0
AllWellFormed(e) == /\ Len(e.r) <= 1
                    /\ \A i \in 1..Len(e.r) : WellFormed(e, e.r[i])

(***************************************************************************)
(* Effects                                                                 *)
(***************************************************************************)
(* a successful store of a whole new record *)
Stored(s, e, k, val, flags, cas, ttl, continuing, born) ==
    [s EXCEPT !.item[k] = [p |-> TRUE, val |-> val, flags |-> flags, cas |-> cas,
                           dlMin |-> Dl(s.now, ttl), dlMax |-> Dl(s.now, ttl), ttls |-> {ttl},
                           fl |-> FALSE, by |-> e.op, byq |-> e.q],
              !.carried[k] = IF continuing THEN @ \cup {cas} ELSE {cas},
              !.born[k]    = IF continuing THEN @ ELSE born,
              !.ghost      = @ \ {k},
              !.gone[k]    = "stored"]

(* a successful in-place update (append, prepend, incr, decr): value and CAS change,  *)
(* flags stay, the deadline is the earlier/later of the readings G5 allows            *)
Updated(s, e, k, val, cas, extraTtls) ==
    LET it  == s.item[k]
        tt  == it.ttls \cup extraTtls
        cand == {Dl(s.now, t) : t \in (IF extraTtls = {} THEN it.ttls ELSE extraTtls)}
        lo  == CHOOSE x \in cand : \A y \in cand : x <= y
        hi  == CHOOSE x \in cand : \A y \in cand : x >= y
    IN [s EXCEPT !.item[k] = [it EXCEPT !.val = val, !.cas = cas, !.ttls = tt,
                                        !.dlMin = Min(@, lo), !.dlMax = Max(@, hi),
                                        !.by = e.op, !.byq = e.q],
                 !.carried[k] = @ \cup {cas}]

(***************************************************************************)
(* Counter text (G6)                                                       *)
(***************************************************************************)
NumClass(h) == IF HexIsDigits(h) /\ Fits(HexText(h), MaxU) THEN "num"
               ELSE IF Len(h) > 2 /\ SubSeq(h, 1, 2) = "2b" /\ HexIsDigits(SubSeq(h, 3, Len(h)))
                       /\ Fits(HexText(SubSeq(h, 3, Len(h))), MaxU) THEN "plus"
               ELSE "nan"
NumOf(h) == IF NumClass(h) = "plus" THEN Canon(HexText(SubSeq(h, 3, Len(h)))) ELSE Canon(HexText(h))
DeltaResult(e, v) == IF e.op = "incr" THEN AddMod(v, e.d, MaxU) ELSE SubSat(v, e.d)

(***************************************************************************)
(* Judging one command at a fixed reading of the key's zone                *)
(*   z \in {"live", "absent"};  strict = FALSE in the maybe zone            *)
(***************************************************************************)
JudgeGet(s, e, z, strict) ==
    LET k == e.k  it == s.item[k] IN
    IF z = "live" THEN
        IF Len(e.r) = 1 /\ e.r[1].st = 0 THEN
            LET r == e.r[1] IN
            IF r.v # it.val THEN Bad({"C01"} \cup ByTags(it.by) \cup QTags(e, it), s, "get.hit.value")
            ELSE IF ~(it.flags = Wild \/ r.f = it.flags)
                 THEN Bad({"C01"} \cup ByTags(it.by) \cup QTags(e, it), s, "get.hit.flags")
            ELSE IF r.cas = "0" THEN Bad({"C01"}, s, "get.hit.cas0")
            ELSE IF ~CasEq(it.cas, r.cas) THEN Bad({"C02"} \cup QTags(e, it), s, "get.hit.cas")
            ELSE OK([s EXCEPT !.item[k].flags = r.f, !.item[k].cas = r.cas,
                              !.carried[k] = (@ \ {Wild}) \cup {r.cas}], "get.hit")
        ELSE Bad({"C01"} \cup (IF it.dlMax < Inf THEN {"C05"} ELSE {}) \cup ByTags(it.by) \cup QTags(e, it),
                 s, "get.live.miss")
    ELSE
        IF Missed(e) THEN OK([s EXCEPT !.ghost = @ \ {k}], "get.miss")
        ELSE Bad(WhyTags(s.gone[k]) \cup (IF e.q THEN {"C19", "C12"} ELSE {}), s, "get.absent.hit")

JudgeStore(s, e, z, strict) ==
    LET k == e.k  it == s.item[k]  nc == AckCas(e)
        succ(cont, born) == Stored(s, e, k, e.v, e.f, nc, e.ttl, cont, born)
        casTags == IF Cond(e) THEN {"C02"} ELSE {}
        opTags  == IF e.op = "set" THEN {"C01"} ELSE {"C06"}
        absTags == IF s.gone[k] \in {"expired", "flushed"} THEN {"C05"} ELSE {}
    IN
    IF z = "live" THEN
        IF e.op = "add" THEN
            IF Status(e, 2) THEN OK(s, "add.present") ELSE Bad({"C06"} \cup QTags(e, it), s, "add.present.bad")
        ELSE IF ~Cond(e) \/ CasEq(it.cas, e.cas) THEN
            IF Acked(e) THEN
                IF nc = "0" THEN Bad({"C01", "C02"}, s, "store.cas0")
                ELSE IF strict /\ ~Fresh(s, k, nc) THEN Bad({"C02"}, s, "store.notfresh")
                ELSE OK(succ(TRUE, FALSE), "store.live.ok")
            ELSE IF Cond(e) /\ it.cas = Wild /\ Status(e, 2) THEN OK(s, "store.cas.unknown")
            ELSE Bad(opTags \cup casTags \cup QTags(e, it), s, "store.live.refused")
        ELSE \* a CAS that does not match
            IF Status(e, 2) THEN OK(s, "store.cas.mismatch")
            ELSE Bad({"C02"} \cup QTags(e, it), s, "store.cas.mismatch.bad")
    ELSE \* absent
        IF e.op = "replace" THEN
            IF Status(e, 1) THEN OK(s, "replace.absent")
            ELSE Bad({"C06"} \cup absTags \cup QTags(e, it), s, "replace.absent.bad")
        ELSE IF ~Cond(e) THEN
            IF Acked(e) THEN
                IF nc = "0" THEN Bad({"C01", "C02"}, s, "store.cas0")
                ELSE OK(succ(FALSE, FALSE), "store.absent.ok")
            ELSE Bad(opTags \cup absTags \cup QTags(e, it), s, "store.absent.refused")
        ELSE \* G3: a CAS-carrying set/add on an absent key
            IF Acked(e) THEN
                IF nc = "0" THEN Bad({"C01"}, s, "store.cas0")
                ELSE OK(succ(FALSE, TRUE), "store.absent.clientcas")
            ELSE IF Status(e, 1) \/ Status(e, 2) THEN OK(s, "store.absent.clientcas.refused")
            ELSE Bad({"C02"}, s, "store.absent.clientcas.bad")

JudgeConcat(s, e, z, strict) ==
    LET k == e.k  it == s.item[k]  nc == AckCas(e)
        nv == IF e.op = "append" THEN it.val \o e.v ELSE e.v \o it.val
        absTags == IF s.gone[k] \in {"expired", "flushed"} THEN {"C05"} ELSE {}
    IN
    IF z = "live" THEN
        IF ~Cond(e) \/ CasEq(it.cas, e.cas) THEN
            IF Acked(e) THEN
                IF nc = "0" THEN Bad({"C01", "C02"}, s, "concat.cas0")
                ELSE IF strict /\ ~Fresh(s, k, nc) THEN Bad({"C02"}, s, "concat.notfresh")
                ELSE OK(Updated(s, e, k, nv, nc, {}), "concat.ok")
            ELSE IF Cond(e) /\ it.cas = Wild /\ Status(e, 2) THEN OK(s, "concat.cas.unknown")
            ELSE Bad({"C06"} \cup (IF Cond(e) THEN {"C02"} ELSE {}) \cup QTags(e, it), s, "concat.refused")
        ELSE IF Status(e, 2) THEN OK(s, "concat.cas.mismatch")
        ELSE Bad({"C02"} \cup QTags(e, it), s, "concat.cas.mismatch.bad")
    ELSE
        IF Status(e, 1) THEN OK(s, "concat.absent")
        ELSE Bad({"C06"} \cup absTags \cup QTags(e, it), s, "concat.absent.bad")

JudgeDelta(s, e, z, strict) ==
    LET k == e.k  it == s.item[k]  nc == AckCas(e)
        cls == NumClass(it.val)
        expct == DeltaResult(e, NumOf(it.val))
        goodAck(n) == IF e.q THEN Silent(e) ELSE (Status(e, 0) /\ e.r[1].n = n)
        absTags == IF s.gone[k] \in {"expired", "flushed"} THEN {"C05"} ELSE {}
    IN
    IF z = "live" THEN
        IF Cond(e) /\ ~CasEq(it.cas, e.cas) THEN
            IF Status(e, 2) \/ (cls # "num" /\ Status(e, 6)) THEN OK(s, "delta.cas.mismatch")
            ELSE Bad({"C02"} \cup QTags(e, it), s, "delta.cas.mismatch.bad")
        ELSE IF cls = "nan" THEN
            IF Status(e, 6) \/ (Cond(e) /\ it.cas = Wild /\ Status(e, 2)) THEN OK(s, "delta.nonnumeric")
            ELSE Bad({"C07"} \cup QTags(e, it), s, "delta.nonnumeric.bad")
        ELSE IF cls = "plus" /\ Status(e, 6) THEN OK(s, "delta.plus.rejected")
        ELSE IF goodAck(expct) THEN
            IF nc = "0" THEN Bad({"C01", "C02"}, s, "delta.cas0")
            ELSE IF strict /\ ~Fresh(s, k, nc) THEN Bad({"C02"}, s, "delta.notfresh")
            ELSE OK(Updated(s, e, k, TextHex(expct), nc, {e.ttl}), "delta.ok")
        ELSE IF Cond(e) /\ it.cas = Wild /\ Status(e, 2) THEN OK(s, "delta.cas.unknown")
        ELSE Bad({"C07"} \cup (IF Cond(e) THEN {"C02"} ELSE {}) \cup QTags(e, it), s, "delta.bad")
    ELSE \* absent
        IF e.ttls = U32Max THEN
            IF Status(e, 1) THEN OK([s EXCEPT !.gone[k] = IF @ = "never" THEN "nocreate" ELSE @], "delta.nocreate")
            ELSE Bad({"C07"} \cup absTags \cup QTags(e, it), s, "delta.nocreate.bad")
        ELSE IF goodAck(e.i) THEN
            IF nc = "0" THEN Bad({"C01", "C02"}, s, "delta.cas0")
            ELSE OK(Stored(s, e, k, TextHex(e.i), Wild, nc, e.ttl, FALSE, Cond(e)),
                    IF Cond(e) THEN "delta.create.clientcas" ELSE "delta.create")
        \* C07 quantifies over all CAS fields: the counter is created whatever CAS the request carries (C02 only
        \* exempts the lifetime so begun from its uniqueness claim); a refusal is not accepted
        ELSE Bad({"C07"} \cup absTags \cup QTags(e, it), s, "delta.create.bad")

JudgeDelete(s, e, z, strict) ==
    LET k == e.k  it == s.item[k] IN
    IF z = "live" THEN
        IF ~Cond(e) \/ CasEq(it.cas, e.cas) THEN
            IF Acked(e) THEN OK(Gone(s, k, "deleted"), "delete.ok")
            ELSE IF Cond(e) /\ it.cas = Wild /\ Status(e, 2) THEN OK(s, "delete.cas.unknown")
            ELSE Bad({"C08"} \cup (IF Cond(e) THEN {"C02"} ELSE {}) \cup QTags(e, it), s, "delete.refused")
        ELSE IF Status(e, 2) THEN OK(s, "delete.cas.mismatch")
        ELSE Bad({"C08", "C02"} \cup QTags(e, it), s, "delete.cas.mismatch.bad")
    ELSE IF k \in s.ghost THEN     \* G4: expired but possibly not collected
        IF Acked(e) \/ Status(e, 1) THEN OK([s EXCEPT !.ghost = @ \ {k}], "delete.ghost")
        ELSE IF Status(e, 2) THEN OK(s, "delete.ghost.exists")
        ELSE Bad({"C08"}, s, "delete.ghost.bad")
    ELSE IF Status(e, 1) THEN OK(s, "delete.absent")
    ELSE Bad({"C08"} \cup QTags(e, it), s, "delete.absent.bad")

JudgeAt(s, e, z, strict) ==
    IF e.op = "get" THEN JudgeGet(s, e, z, strict)
    ELSE IF e.op \in StoreOps THEN JudgeStore(s, e, z, strict)
    ELSE IF e.op \in ConcatOps THEN JudgeConcat(s, e, z, strict)
    ELSE IF e.op \in DeltaOps THEN JudgeDelta(s, e, z, strict)
    ELSE JudgeDelete(s, e, z, strict)

(* The judgements of a keyed command: one in the live and absent zones; in the maybe zone  *)
(* both readings of the deadline are acceptable (G5, "unless flushed") and - because a    *)
(* quiet command may reveal nothing - both successor states are kept as candidates.       *)
JudgeKeyed(s, e) ==
    LET z == Zone(s, e.k) IN
    IF z \in {"live", "absent"} THEN {JudgeAt(s, e, z, TRUE)}
    ELSE
        LET why == IF s.item[e.k].fl THEN "flushed" ELSE "expired"
            a == JudgeAt(s, e, "live", FALSE)
            b == JudgeAt([Gone(s, e.k, why) EXCEPT !.ghost = @ \cup {e.k}], e, "absent", FALSE)
        IN  {[a EXCEPT !.rule = "maybe/" \o a.rule], [b EXCEPT !.rule = "maybe/" \o b.rule]}

JudgeFlush(s, e) ==
    IF ~Acked(e) THEN Bad({"C08"} \cup (IF e.q THEN {"C19"} ELSE {}), s, "flush.bad")
    ELSE IF e.ttl = 0 THEN
        OK([s EXCEPT !.item = [k \in s.keys |-> NoItem],
                     !.gone = [k \in s.keys |-> IF s.item[k].p THEN "flushed" ELSE s.gone[k]],
                     !.ghost = {}], "flush.now")
    ELSE
        OK([s EXCEPT !.item = [k \in s.keys |->
                 LET it == s.item[k] IN
                 IF ~it.p THEN it
                 ELSE [it EXCEPT !.dlMax = Min(@, s.now + e.ttl), !.dlMin = Min(@, s.now),
                                 !.ttls = @ \cup {e.ttl},
                                 !.fl = (@ \/ s.now + e.ttl < it.dlMax)]]], "flush.delayed")

JudgePlain(s, e) ==
    IF e.op \in PlainOps THEN
        IF Status(e, 0) THEN OK(s, e.op) ELSE Bad({"C12", "C11"}, s, e.op \o ".bad")
    ELSE IF e.op = "quit" THEN
        IF Acked(e) THEN OK(s, "quit") ELSE Bad({"C12"}, s, "quit.bad")
    ELSE \* protocol opcodes the server does not implement: one response if loud (G8)
        IF (e.q /\ Len(e.r) <= 1) \/ (~e.q /\ Len(e.r) = 1) THEN OK(s, "unimplemented")
        ELSE Bad({"C12"}, s, "unimplemented.bad")

(***************************************************************************)
(* Physical observations: disappearance (C01 / C15) and the bound (C14)    *)
(***************************************************************************)
AttemptSize(s, e) ==
    IF e.bl > s.limit THEN 0
    ELSE IF e.op \in StoreOps THEN 24 + (Len(e.v) \div 2)
    ELSE IF e.op \in ConcatOps THEN 24 + ((Len(s.item[e.k].val) + Len(e.v)) \div 2)
    ELSE IF e.op \in DeltaOps THEN 24 + 20
    ELSE 0

(* Three findings about the eviction policy are SOFT: they are noted (with an identity the  *)
(* orchestrator matches against known_findings.json) and the history goes on, following    *)
(* what was observed, so that the rest of it is still checked:                              *)
(*   C15|evict|<accounted|unaccounted>   a live item left without memory pressure           *)
(*   C14|over|<acct-under|acct-ok>       stored bytes above L + the record just written     *)
(*   C15|acct|<rule>|<over|under>        the accounted usage moved differently from content *)
Reconcile(s0, j, e) ==
    IF ~s0.obs \/ j.tags # {} THEN j
    ELSE
    LET st   == j.st
        n    == AttemptSize(s0, e)
        pres == SeqRange(e.present)
        missing == {k \in st.keys : st.item[k].p /\ k \notin pres}
        expd == {k \in missing : Zone(st, k) = "maybe"}
        lost == missing \ expd
        random == st.policy = "random"
        \* memory pressure: the records stored after this (acknowledged) store, had nothing been evicted, exceed the
        \* limit - the record the store replaces does not count twice, a refused store adds nothing
        oldSize == IF e.op \in KeyedOps /\ s0.item[e.k].p THEN 24 + (Len(s0.item[e.k].val) \div 2) ELSE 0
        pressure == random /\ n > 0 /\ Acked(e) /\ (s0.bytes - (IF oldSize <= s0.bytes THEN oldSize ELSE 0)) + n > st.L
        acctPressure == random /\ n > 0 /\ Less(NatToStr(st.L), s0.usage)       \* the code's own criterion
        last == IF n > 0 /\ Acked(e) THEN n ELSE st.lastSize      \* the record just written
        st2  == [st EXCEPT !.item = [k \in st.keys |-> IF k \in missing THEN NoItem ELSE st.item[k]],
                           !.gone = [k \in st.keys |-> IF k \in expd THEN (IF st.item[k].fl THEN "flushed" ELSE "expired")
                                                       ELSE IF k \in lost THEN "evicted" ELSE st.gone[k]],
                           !.lastSize = last, !.bytes = e.bytes,
                           !.usage = IF e.usage = "" THEN "0" ELSE e.usage]
        a == Plus(e.usage, NatToStr(s0.bytes))
        b == Plus(s0.usage, NatToStr(e.bytes))
        nEvict == IF lost # {} /\ ~pressure /\ random
                  THEN {"C15|evict|" \o (IF acctPressure THEN "accounted" ELSE "unaccounted")} ELSE {}
        nOver  == IF random /\ e.bytes > st.L + last
                  THEN {"C14|over|" \o (IF Less(e.usage, NatToStr(e.bytes)) THEN "acct-under" ELSE "acct-ok")} ELSE {}
        nAcct  == IF random /\ e.usage # "" /\ a # b
                  THEN {"C15|acct|" \o j.rule \o (IF Less(b, a) THEN "|over" ELSE "|under")} ELSE {}
    IN  IF lost # {} /\ ~random THEN Bad({"C01"}, s0, j.rule \o "+disappeared")
        ELSE [j EXCEPT !.st = st2, !.notes = nEvict \cup nOver \cup nAcct,
                       !.rule = IF lost # {} THEN @ \o "+evicted" ELSE @]

(***************************************************************************)
(* The judge                                                               *)
(***************************************************************************)
OpTag(e) == IF e.op \in DeltaOps THEN {"C07"}
            ELSE IF e.op \in ConcatOps \cup {"add", "replace"} THEN {"C06"}
            ELSE IF e.op \in {"delete", "flush"} THEN {"C08"}
            ELSE {"C01"}

(* the set of judgements of one observed command in one candidate state *)
Judge(s, e) ==
    IF e.panic THEN {Bad({"C10"} \cup OpTag(e) \cup (IF Cond(e) THEN {"C02"} ELSE {}), s, "panic")}
    ELSE IF ~AllWellFormed(e) THEN {Bad({"C11"}, s, "malformed")}
    ELSE IF e.bl > s.limit THEN
        IF Status(e, 3) THEN {Reconcile(s, OK(s, "oversize"), e)}
        ELSE {Bad({"C13"}, s, "oversize.bad")}
    ELSE IF Status(e, 3) THEN {Bad({"C13"}, s, "toolarge.within.limit")}
    ELSE IF e.op \notin UnimplOps /\ e.dec # "frame" THEN {Bad({"C12", "C10"} \cup OpTag(e), s, "not.decoded")}
    ELSE IF e.op \in KeyedOps THEN {Reconcile(s, j, e) : j \in JudgeKeyed(s, e)}
    ELSE IF e.op = "flush" THEN {Reconcile(s, JudgeFlush(s, e), e)}
    ELSE {Reconcile(s, JudgePlain(s, e), e)}

(* The contract state is a SET of candidate states (the readings still compatible with    *)
(* everything observed).  An event is accepted iff some candidate accepts it; the         *)
(* candidates that do not are dropped.  If none does, the event violates the contract:    *)
(* the tags are those of the rules failing in every candidate.                            *)
JudgeAll(cands, e) ==
    LET js   == UNION {Judge(c, e) : c \in cands}
        good == {j \in js : j.tags = {}}
    IN  IF good # {} THEN [tags |-> {}, sts |-> {j.st : j \in good}, rules |-> {j.rule : j \in good},
                               notes |-> UNION {j.notes : j \in good}]
        ELSE [tags |-> UNION {j.tags : j \in js}, sts |-> cands, rules |-> {j.rule : j \in js}, notes |-> {}]
TickAll(cands, to) == {Tick(c, to) : c \in cands}
=============================================================================
