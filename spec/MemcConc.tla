------------------------------ MODULE MemcConc ------------------------------
(***************************************************************************)
(* The CONCURRENT model of the code: several clients execute one command   *)
(* each on the same key; one action per access to shared state, exactly    *)
(* the yield points of the instrumented crate (memcrs::verif):             *)
(*    cmd.start            the command begins                              *)
(*    memc.lock_key        MemcStore::lock_key   (key stripe mutex)        *)
(*    map.get              MemoryStore::get_by_key                         *)
(*    map.remove_if        check_if_expired (conditional removal) / delete *)
(*    map.entry            MemoryStore::set with a CAS (entry held)        *)
(*    cas_id.fetch_add     MemoryStore::get_cas_id                         *)
(*    map.insert           MemoryStore::set without CAS                    *)
(*    memory_usage.update  MemoryStore::account                            *)
(* The three repairs that made the commands atomic are switches, so that   *)
(* TLC can show what each of them is needed for:                           *)
(*    KeyLock       stripe lock around every mutating command (F5)         *)
(*    ExpiryRecheck lazy expiry removes only a record that is still        *)
(*                  expired (F3)                                           *)
(*    EntryApi      CAS-store of an absent key under the entry lock (F4)   *)
(*    FlushLock     flush (immediate: map.retain, delayed: map.alter_all)  *)
(*                  under all key stripes                                  *)
(* Property (C03 C04): every complete execution is LINEARIZABLE with       *)
(* respect to the contract - some order of the commands is accepted by     *)
(* MemcContract!JudgeAll with the responses the clients got, and explains  *)
(* the final content.  C16: every execution completes (no deadlock:        *)
(* checked by TLC's deadlock detection; termination under fairness).       *)
(***************************************************************************)
EXTENDS MemcStore

CONSTANTS Clients,        \* e.g. {1, 2, 3}
          Progs,          \* set of programs: functions Clients -> command (records as in MC_Store!Mk)
          Inits,          \* initial states of the key: subset of {"absent", "present", "expired"}
          KeyLock, ExpiryRecheck, EntryApi,
          CollectOwn,     \* the lazy expiry collection accounts for the entry it removed (not for the caller's earlier copy)
          FlushLock       \* flush takes every key stripe (MemcStore::flush) - without it a flush can fall
                          \* between the lookup and the store of a read-modify-write command

K == "636b"                                   \* the key ("ck")
InitRec(i) == CASE i = "present" -> [p |-> TRUE, val |-> "35", flags |-> "9", cas |-> "1", ts |-> 0, ttl |-> 0]
                [] i = "expired" -> [p |-> TRUE, val |-> "35", flags |-> "9", cas |-> "1", ts |-> 0, ttl |-> 1]
                [] OTHER -> NoRec
InitNow(i) == IF i = "expired" THEN 5 ELSE 0

VARIABLES prog, init,
          rec,       \* the map entry of K
          ctr,       \* CAS counter
          klock,     \* holder of K's stripe lock (0 = free)
          shard,     \* holder of K's shard lock through a map entry (0 = free)
          pc, loc,   \* per client: program counter, locals
          resp,      \* per client: response frames (sequence), once done
          sched,     \* history: <<client, site>> of every step (for replay)
          usage,     \* MemoryStore's byte counter (an integer here: below zero = the AtomicU64 has wrapped)
          now        \* the clock (a `tick` client moves it in the middle of the other commands)
vars == <<prog, init, rec, ctr, klock, shard, pc, loc, resp, sched, usage, now>>

Now == now
Cmd(c) == prog[c]
NoLoc == [got |-> NoRec, hit |-> FALSE, store |-> NoRec, newcas |-> "0", n |-> "", removed |-> FALSE, rm |-> 0]

Init == /\ prog \in Progs /\ init \in Inits
        /\ rec = InitRec(init) /\ ctr = (IF init = "absent" THEN "1" ELSE "2")
        /\ klock = 0 /\ shard = 0
        /\ pc = [c \in Clients |-> "cmd.start"]
        /\ loc = [c \in Clients |-> NoLoc]
        /\ resp = [c \in Clients |-> <<>>]
        /\ sched = <<>>
        /\ usage = (IF InitRec(init).p THEN RecSize(InitRec(init)) ELSE 0)
        /\ now = InitNow(init)

Step(c, site) == sched' = Append(sched, <<c, site>>)
Goto(c, l) == pc' = [pc EXCEPT ![c] = l]
IsExpired(r) == r.p /\ r.ttl # 0 /\ r.ts + r.ttl <= Now
Mutating(c) == Cmd(c).op # "get"

(* finishing a command: the response, and the stripe lock goes back *)
Finish(c, frames) == /\ resp' = [resp EXCEPT ![c] = frames]
                     /\ Goto(c, "done")
                     /\ klock' = IF klock = c THEN 0 ELSE klock
OkResp(c, cas, n) == IF Cmd(c).q THEN <<>>
                     ELSE IF Cmd(c).op \in DeltaOps THEN <<Frame(Cmd(c), 0, cas, "", "", "0000000000000000", "", n)>>
                     ELSE <<OkFrame(Cmd(c), cas)>>
Err(c, st) == <<ErrFrame(Cmd(c), st)>>

(* the clock as a client: one step *)
TickNow(c) == /\ pc[c] = "cmd.start" /\ Cmd(c).op = "tick"
              /\ now' = Cmd(c).ttl /\ Goto(c, "done")
              /\ Step(c, "cmd.start") /\ UNCHANGED <<prog, init, rec, ctr, klock, shard, loc, resp, usage>>
FlushSite(c) == IF Cmd(c).ttl > 0 THEN "map.alter_all" ELSE "map.retain"
(* cmd.start *)
Start(c) == /\ pc[c] = "cmd.start" /\ Cmd(c).op # "tick"
            /\ Goto(c, IF Cmd(c).op = "flush" THEN (IF FlushLock THEN "memc.lock_all" ELSE FlushSite(c))
                       ELSE IF Mutating(c) /\ KeyLock THEN "memc.lock_key" ELSE IF Cmd(c).op \in {"set"} THEN "store" ELSE IF Cmd(c).op = "delete" THEN "map.remove_if.delete" ELSE "map.get")
            /\ Step(c, "cmd.start") /\ UNCHANGED <<prog, init, rec, ctr, klock, shard, loc, resp>>

(* memc.lock_key *)
Lock(c) == /\ pc[c] = "memc.lock_key" /\ klock = 0
           /\ klock' = c
           /\ Goto(c, IF Cmd(c).op = "set" THEN "store" ELSE IF Cmd(c).op = "delete" THEN "map.remove_if.delete" ELSE "map.get")
           /\ Step(c, "memc.lock_key") /\ UNCHANGED <<prog, init, rec, ctr, shard, loc, resp>>

(* MemcStore::flush: every stripe (here: the one of K), then the whole map in one access *)
LockAll(c) == /\ pc[c] = "memc.lock_all" /\ klock = 0
              /\ klock' = c /\ Goto(c, FlushSite(c))
              /\ Step(c, "memc.lock_all") /\ UNCHANGED <<prog, init, rec, ctr, shard, loc, resp>>
(* delayed: every item dies `ttl` seconds from now at the latest; an item whose own deadline is earlier keeps it *)
AlterAll(c) == /\ pc[c] = "map.alter_all" /\ shard = 0
               /\ rec' = IF rec.p /\ (rec.ttl = 0 \/ rec.ts + rec.ttl > Now + Cmd(c).ttl)
                         THEN [rec EXCEPT !.ts = Now, !.ttl = Cmd(c).ttl] ELSE rec
               /\ Step(c, "map.alter_all")
               /\ Finish(c, IF Cmd(c).q THEN <<>> ELSE <<OkFrame(Cmd(c), "0")>>)
               /\ UNCHANGED <<prog, init, ctr, shard, loc>>
(* immediate: retain(false), the closure accounts for every record it drops *)
Retain(c) == /\ pc[c] = "map.retain" /\ shard = 0
             /\ rec' = NoRec
             /\ Step(c, "map.retain")
             /\ IF rec.p THEN Goto(c, "acct.flush") /\ UNCHANGED <<resp, klock>>
                ELSE Finish(c, IF Cmd(c).q THEN <<>> ELSE <<OkFrame(Cmd(c), "0")>>)
             /\ loc' = [loc EXCEPT ![c].rm = IF rec.p THEN RecSize(rec) ELSE 0]
             /\ UNCHANGED <<prog, init, ctr, shard>>
AcctFlush(c) == /\ pc[c] = "acct.flush" /\ Step(c, "memory_usage.update") /\ usage' = usage - loc[c].rm
                /\ Finish(c, IF Cmd(c).q THEN <<>> ELSE <<OkFrame(Cmd(c), "0")>>)
                /\ UNCHANGED <<prog, init, rec, ctr, shard, loc>>

(* what the lookup of a read-modify-write command (or of a get) leads to *)
AfterLookup(c, hit, r) ==
    LET cm == Cmd(c) IN
    CASE cm.op = "get" ->
            IF hit THEN Finish(c, <<Frame(cm, 0, r.cas, "00000000", IF cm.gk THEN K ELSE "", r.val, r.flags, "")>>) /\ UNCHANGED loc
            ELSE Finish(c, IF cm.q THEN <<>> ELSE Err(c, 1)) /\ UNCHANGED loc
      [] cm.op = "add" ->
            IF hit THEN Finish(c, Err(c, 2)) /\ UNCHANGED loc
            ELSE /\ loc' = [loc EXCEPT ![c].store = NewRec(cm), ![c].n = ""] /\ Goto(c, "store") /\ UNCHANGED <<resp, klock>>
      [] cm.op = "replace" ->
            IF ~hit THEN Finish(c, Err(c, 1)) /\ UNCHANGED loc
            ELSE /\ loc' = [loc EXCEPT ![c].store = NewRec(cm), ![c].n = ""] /\ Goto(c, "store") /\ UNCHANGED <<resp, klock>>
      [] cm.op \in ConcatOps ->
            IF ~hit THEN Finish(c, Err(c, 1)) /\ UNCHANGED loc
            ELSE /\ loc' = [loc EXCEPT ![c].store = [r EXCEPT !.val = IF cm.op = "append" THEN r.val \o cm.v ELSE cm.v \o r.val,
                                                              !.cas = cm.cas], ![c].n = ""]
                 /\ Goto(c, "store") /\ UNCHANGED <<resp, klock>>
      [] OTHER -> \* incr / decr
            IF hit THEN
                IF ~Parses(r.val) THEN Finish(c, Err(c, 6)) /\ UNCHANGED loc
                ELSE LET nv == DeltaResult(cm, NumOf(r.val)) IN
                     /\ loc' = [loc EXCEPT ![c].store = [p |-> TRUE, val |-> TextHex(nv), flags |-> r.flags, cas |-> cm.cas, ts |-> 0, ttl |-> cm.ttl],
                                           ![c].n = nv]
                     /\ Goto(c, "store") /\ UNCHANGED <<resp, klock>>
            ELSE IF cm.ttls = U32Max THEN Finish(c, Err(c, 1)) /\ UNCHANGED loc
            ELSE /\ loc' = [loc EXCEPT ![c].store = [p |-> TRUE, val |-> TextHex(cm.i), flags |-> "0", cas |-> "0", ts |-> 0, ttl |-> cm.ttl],
                                       ![c].n = cm.i]
                 /\ Goto(c, "store") /\ UNCHANGED <<resp, klock>>

(* map.get: clone the record under the shard read lock *)
MapGet(c) == /\ pc[c] = "map.get" /\ shard = 0
             /\ Step(c, "map.get")
             /\ IF rec.p /\ IsExpired(rec)
                THEN /\ loc' = [loc EXCEPT ![c].got = rec] /\ Goto(c, "map.remove_if") /\ UNCHANGED <<resp, klock>>
                ELSE AfterLookup(c, rec.p, rec)
             /\ UNCHANGED <<prog, init, rec, ctr, shard>>

(* check_if_expired: the expired entry is collected - if it is still the expired one *)
Collect(c) == /\ pc[c] = "map.remove_if" /\ shard = 0
              /\ Step(c, "map.remove_if")
              /\ LET gone == IF ExpiryRecheck THEN rec.p /\ IsExpired(rec) ELSE rec.p IN
                 /\ rec' = IF gone THEN NoRec ELSE rec
                 /\ loc' = [loc EXCEPT ![c].removed = gone,
                                       ![c].rm = IF ~gone THEN 0 ELSE IF CollectOwn THEN RecSize(rec) ELSE RecSize(loc[c].got)]
                 /\ Goto(c, IF gone THEN "acct.collect" ELSE "lookup.miss")
              /\ UNCHANGED <<prog, init, ctr, klock, shard, resp>>
AcctCollect(c) == /\ pc[c] = "acct.collect" /\ Step(c, "memory_usage.update") /\ Goto(c, "lookup.miss") /\ usage' = usage - loc[c].rm
                  /\ UNCHANGED <<prog, init, rec, ctr, klock, shard, loc, resp>>
(* (not a yield point: the lookup failed; continue the command) *)
LookupMiss(c) == /\ pc[c] = "lookup.miss" /\ AfterLookup(c, FALSE, NoRec) /\ sched' = sched
                 /\ UNCHANGED <<prog, init, rec, ctr, shard>>

(* MemoryStore::set *)
StoreBegin(c) ==
    /\ pc[c] = "store"
    /\ LET r0 == IF Cmd(c).op = "set" THEN NewRec(Cmd(c)) ELSE loc[c].store IN
       /\ loc' = [loc EXCEPT ![c].store = r0]
       /\ Goto(c, IF r0.cas = "0" THEN "cas_id.fetch_add" ELSE IF EntryApi THEN "map.entry" ELSE "map.get_mut")
    /\ sched' = sched /\ UNCHANGED <<prog, init, rec, ctr, klock, shard, resp>>
(* unconditional: counter, insert, account *)
FetchAdd(c) == /\ pc[c] = "cas_id.fetch_add"
               /\ loc' = [loc EXCEPT ![c].newcas = ctr] /\ ctr' = NextCtr(ctr)
               /\ Goto(c, IF shard = c THEN "entry.write" ELSE "map.insert")
               /\ Step(c, "cas_id.fetch_add") /\ UNCHANGED <<prog, init, rec, klock, shard, resp>>
MapInsert(c) == /\ pc[c] = "map.insert" /\ shard = 0
                /\ rec' = [loc[c].store EXCEPT !.cas = loc[c].newcas, !.ts = Now]
                /\ Goto(c, "acct.store")
                /\ loc' = [loc EXCEPT ![c].rm = IF rec.p THEN RecSize(rec) ELSE 0]
                /\ Step(c, "map.insert") /\ UNCHANGED <<prog, init, ctr, klock, shard, resp>>
AcctStore(c) == /\ pc[c] = "acct.store" /\ Step(c, "memory_usage.update") /\ usage' = (usage + RecSize(loc[c].store)) - loc[c].rm
                /\ Finish(c, OkResp(c, loc[c].newcas, loc[c].n))
                /\ shard' = IF shard = c THEN 0 ELSE shard          \* an occupied entry / get_mut guard is dropped only now
                /\ UNCHANGED <<prog, init, rec, ctr, loc>>
(* conditional: the entry holds the shard lock across compare / counter / write *)
MapEntry(c) ==
    /\ pc[c] = "map.entry" /\ shard = 0
    /\ Step(c, "map.entry")
    /\ IF rec.p THEN
            IF rec.cas # loc[c].store.cas THEN Finish(c, Err(c, 2)) /\ UNCHANGED <<rec, shard, loc>>
            ELSE shard' = c /\ Goto(c, "cas_id.fetch_add") /\ UNCHANGED <<rec, loc, resp, klock>>
       ELSE /\ rec' = [loc[c].store EXCEPT !.cas = Succ1(loc[c].store.cas), !.ts = Now]
            /\ loc' = [loc EXCEPT ![c].newcas = Succ1(loc[c].store.cas), ![c].rm = 0]
            /\ Goto(c, "acct.store") /\ UNCHANGED <<shard, resp, klock>>
    /\ UNCHANGED <<prog, init, ctr>>
EntryWrite(c) == /\ pc[c] = "entry.write"           \* (inside the entry: no yield point of its own)
                 /\ rec' = [loc[c].store EXCEPT !.cas = loc[c].newcas, !.ts = Now]
                 /\ Goto(c, "acct.store") /\ sched' = sched
                 /\ loc' = [loc EXCEPT ![c].rm = IF rec.p THEN RecSize(rec) ELSE 0]
                 /\ UNCHANGED <<prog, init, ctr, klock, shard, resp>>
(* the code before the entry API: get_mut, and a separate insert when the key was not there *)
MapGetMut(c) ==
    /\ pc[c] = "map.get_mut" /\ shard = 0
    /\ Step(c, "map.get_mut")
    /\ IF rec.p THEN
            IF rec.cas # loc[c].store.cas THEN Finish(c, Err(c, 2)) /\ UNCHANGED <<rec, shard, loc>>
            ELSE shard' = c /\ Goto(c, "cas_id.fetch_add") /\ UNCHANGED <<rec, loc, resp, klock>>
       ELSE /\ loc' = [loc EXCEPT ![c].newcas = Succ1(loc[c].store.cas)]
            /\ Goto(c, "map.insert") /\ UNCHANGED <<rec, shard, resp, klock>>
    /\ UNCHANGED <<prog, init, ctr>>

(* MemoryStore::delete *)
Delete(c) == /\ pc[c] = "map.remove_if.delete" /\ shard = 0
             /\ Step(c, "map.remove_if")
             /\ IF ~rec.p THEN Finish(c, Err(c, 1)) /\ UNCHANGED rec
                ELSE IF Cmd(c).cas = "0" \/ rec.cas = Cmd(c).cas
                     THEN rec' = NoRec /\ Goto(c, "acct.delete") /\ UNCHANGED <<resp, klock>>
                ELSE Finish(c, Err(c, 2)) /\ UNCHANGED rec
             /\ loc' = [loc EXCEPT ![c].rm = IF rec.p THEN RecSize(rec) ELSE 0]
             /\ UNCHANGED <<prog, init, ctr, shard>>
AcctDelete(c) == /\ pc[c] = "acct.delete" /\ Step(c, "memory_usage.update") /\ usage' = usage - loc[c].rm
                 /\ Finish(c, IF Cmd(c).q THEN <<>> ELSE <<OkFrame(Cmd(c), "0")>>)
                 /\ UNCHANGED <<prog, init, rec, ctr, shard, loc>>

Next == \E c \in Clients :
          \/ TickNow(c)
          \/ /\ UNCHANGED now
             /\ \/ /\ UNCHANGED usage
                   /\ \/ Start(c) \/ Lock(c) \/ MapGet(c) \/ Collect(c) \/ LookupMiss(c)
                      \/ StoreBegin(c) \/ FetchAdd(c) \/ MapInsert(c) \/ MapEntry(c) \/ EntryWrite(c) \/ MapGetMut(c)
                      \/ Delete(c) \/ LockAll(c) \/ AlterAll(c) \/ Retain(c)
                \/ AcctCollect(c) \/ AcctStore(c) \/ AcctDelete(c) \/ AcctFlush(c)
AllDone == \A c \in Clients : pc[c] = "done"
(* C16: with TLC's deadlock check on, a state in which some command cannot continue and     *)
(* nothing else can move is an error; the finished system stutters                          *)
Finished == AllDone /\ UNCHANGED vars
Spec == Init /\ [][Next \/ Finished]_vars /\ WF_vars(Next)

(***************************************************************************)
(* Linearizability at the end of every execution                           *)
(***************************************************************************)
EventFor(c) == [e |-> "cmd", op |-> Cmd(c).op, q |-> Cmd(c).q, gk |-> Cmd(c).gk, opc |-> Cmd(c).opc, k |-> K, v |-> Cmd(c).v,
                f |-> Cmd(c).f, ttl |-> Cmd(c).ttl, ttls |-> Cmd(c).ttls, cas |-> Cmd(c).cas, opq |-> Cmd(c).opq,
                d |-> Cmd(c).d, i |-> Cmd(c).i, bl |-> Cmd(c).bl, dec |-> "frame", panic |-> FALSE, r |-> resp[c],
                present |-> <<>>, bytes |-> 0, usage |-> ""]
FinalGet == LET g == [op |-> "get", q |-> FALSE, gk |-> FALSE, opc |-> 0, k |-> K, v |-> "", f |-> "0", ttl |-> 0, ttls |-> "0",
                      cas |-> "0", opq |-> "900", d |-> "0", i |-> "0", bl |-> 2] IN
            [e |-> "cmd", op |-> "get", q |-> FALSE, gk |-> FALSE, opc |-> 0, k |-> K, v |-> "", f |-> "0", ttl |-> 0, ttls |-> "0",
             cas |-> "0", opq |-> "900", d |-> "0", i |-> "0", bl |-> 2, dec |-> "frame", panic |-> FALSE,
             r |-> IF rec.p /\ ~IsExpired(rec) THEN <<Frame(g, 0, rec.cas, "00000000", "", rec.val, rec.flags, "")>> ELSE <<ErrFrame(g, 1)>>,
             present |-> <<>>, bytes |-> 0, usage |-> ""]
(* the contract state the set-up leaves behind *)
Cs0 == LET s0 == InitState({K}, "none", 0, 1048576, FALSE) IN
       IF init = "absent" THEN {s0}
       ELSE LET setup == [e |-> "cmd", op |-> "set", q |-> FALSE, gk |-> FALSE, opc |-> 1, k |-> K, v |-> "35", f |-> "9",
                          ttl |-> InitRec(init).ttl, ttls |-> NatToStr(InitRec(init).ttl), cas |-> "0", opq |-> "1", d |-> "0", i |-> "0",
                          bl |-> 11, dec |-> "frame", panic |-> FALSE,
                          r |-> <<OkFrame([opc |-> 1, opq |-> "1"], "1")>>, present |-> <<>>, bytes |-> 0, usage |-> ""]
            IN  TickAll(JudgeAll({s0}, setup).sts, Now)
(* a second look after `Later` more seconds: delayed flushes and TTLs have run out by then *)
Later == 4
FinalGetLater == [FinalGet EXCEPT !.opq = "901",
                    !.r = LET g == [opc |-> 0, opq |-> "901"] IN
                          IF rec.p /\ ~(rec.ttl # 0 /\ rec.ts + rec.ttl <= Now + Later)
                          THEN <<Frame(g, 0, rec.cas, "00000000", "", rec.val, rec.flags, "")>> ELSE <<ErrFrame(g, 1)>>]
RECURSIVE Explains(_, _)
Explains(cands, todo) ==
    IF todo = {} THEN LET j == JudgeAll(cands, FinalGet) IN
                      j.tags = {} /\ JudgeAll(TickAll(j.sts, Now + Later), FinalGetLater).tags = {}
    ELSE \E c \in todo : LET j == JudgeAll(cands, EventFor(c)) IN j.tags = {} /\ Explains(j.sts, todo \ {c})
Linearizable == AllDone => Explains(Cs0, Clients)
(* C15 in the concurrent setting: with every command finished the counter is the size of what is stored *)
AcctExact == AllDone => usage = (IF rec.p THEN RecSize(rec) ELSE 0)

(***************************************************************************)
(* Equivalence to a serial execution of the SEQUENTIAL MODEL OF THE CODE   *)
(* (MemcStore!ExecSet): the responses (CAS values aside - they come from a *)
(* global counter) and the record left behind (value, flags, timestamp,    *)
(* ttl) are those of the commands run one at a time in some order.  The    *)
(* contract is permissive where the properties are silent (an item         *)
(* appended to after a delayed flush may live on, G5), so Linearizable     *)
(* alone does not show that a flush cannot fall into the middle of an      *)
(* append; this does (MC_Conc_noflushlock).                                *)
(***************************************************************************)
M0 == [InitModel({K}, "none", 0, 1048576) EXCEPT !.now = Now, !.map = [k \in {K} |-> InitRec(init)],
                                                   !.ctr = IF init = "absent" THEN "1" ELSE "2",
                                                   !.usage = IF init = "absent" THEN 0 ELSE RecSize(InitRec(init))]
NoCas(fs) == [i \in 1..Len(fs) |-> [fs[i] EXCEPT !.cas = "0"]]
SameRec(a, b) == a.p = b.p /\ (a.p => a.val = b.val /\ a.flags = b.flags /\ a.ts = b.ts /\ a.ttl = b.ttl)
RECURSIVE SerialFrom(_, _)
SerialFrom(m, todo) ==
    IF todo = {} THEN SameRec(m.map[K], rec)
    ELSE \E c \in todo : \E o \in ExecSet(m, [Cmd(c) EXCEPT !.k = K]) :
            NoCas(o.r) = NoCas(resp[c]) /\ SerialFrom(o.m, todo \ {c})
SerialEquiv == AllDone => SerialFrom(M0, Clients)

(* emitted for replay: the program, the initial state and the schedule of a complete execution *)
Termination == <>AllDone
=============================================================================
