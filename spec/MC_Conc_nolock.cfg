CONSTANTS
  MaxU = "18446744073709551615"
  Clients = {1, 2}
  Progs <- Progs04_2
  Inits = {"absent", "present", "expired"}
  KeyLock = FALSE
  ExpiryRecheck = TRUE
  EntryApi = TRUE
  FlushLock = TRUE
  CollectOwn = TRUE
SPECIFICATION Spec
INVARIANT Linearizable
PROPERTY Termination
VIEW View
