CONSTANTS
  MaxU = "18446744073709551615"
  Clients = {1, 2, 3}
  Progs <- ProgsClock
  Inits = {"expired"}
  KeyLock = TRUE
  ExpiryRecheck = TRUE
  EntryApi = TRUE
  FlushLock = TRUE
  CollectOwn = FALSE
SPECIFICATION Spec
INVARIANT AcctExact
PROPERTY Termination
VIEW View
