CONSTANTS
  Sizes <- SizesSmall
  SndBuf = 2
  WriteAll = TRUE
SPECIFICATION Spec
INVARIANT StreamOK
INVARIANT Bounded
PROPERTY AllDelivered
CHECK_DEADLOCK FALSE
