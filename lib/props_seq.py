"""Store-semantics properties decided with MemcContract / MemcStore:
C01 C02 C05 C06 C07 C08 C14 C15 C19 (sequential histories)."""
import json
import os
import time
from vlib import *
import seqlib

# ---------------------------------------------------------------------------------------------
# model-checking configurations of MC_Store (bounded exhaustive refinement model => contract)

def cfg_text(c, emit=False, max_steps=None):
    def s(x):
        return "{" + ", ".join('"%s"' % v for v in x) + "}"
    def b(x):
        return "{" + ", ".join("TRUE" if v else "FALSE" for v in x) + "}"
    def n(x):
        return "{" + ", ".join(str(v) for v in x) + "}"
    lines = ["CONSTANTS",
             '  MaxU = "%s"' % c.get("maxu", "9"),
             "  Keys = " + s(c["keys"]), "  Vals = " + s(c["vals"]), "  FlagVals = " + s(c.get("flags", ["0"])),
             "  Ttls = " + n(c.get("ttls", [0])), "  CasVals = " + s(c.get("cas", ["0"])),
             "  Deltas = " + s(c.get("deltas", ["1"])), "  Inits = " + s(c.get("inits", ["5"])),
             "  Quiets = " + b(c.get("quiets", [False])), "  Ops = " + s(c["ops"]),
             "  TickTo = " + n(c.get("ticks", [])),
             '  Policy = "%s"' % c.get("policy", "none"), "  MemLimit = %d" % c.get("L", 0),
             "  ItemLimit = %d" % c.get("limit", 64),
             "  MaxSteps = %d" % (max_steps if max_steps is not None else c["depth"]),
             "  Emit = %s" % ("TRUE" if emit else "FALSE"),
             "  Randomised = %s" % ("TRUE" if emit else "FALSE"),
             "SPECIFICATION Spec", "INVARIANT Refines", "INVARIANT Accounting", "INVARIANT EmptyZero",
             "INVARIANT Bound", "CONSTRAINT Bounded", "CHECK_DEADLOCK FALSE"]
    if c.get("quiet_inv"):
        lines.append("INVARIANT QuietSameEffect")
    if emit:
        lines.append("INVARIANT EmitProg")
    else:
        lines.append("VIEW View")
    return "\n".join(lines) + "\n"


K1, K2, K3 = "6b31", "6b32", "6b33"

MC = {
    # quick configuration, thorough overrides
    "C01": dict(keys=[K1, K2], vals=["61", "6262", ""], flags=["0", "7"], ttls=[0], cas=["0"],
                ops=["get", "set", "add", "replace", "append", "prepend", "delete", "flush"], depth=3,
                thorough=dict(depth=4, quiets=[False, True])),
    "C02": dict(keys=[K1], vals=["61", "31"], ttls=[0, 1], cas=["0", "1", "2", "3", "9"], ticks=[1, 2],
                ops=["get", "set", "replace", "append", "incr", "delete"], depth=4,
                thorough=dict(depth=5, ops=["get", "set", "add", "replace", "append", "prepend", "incr", "decr", "delete"])),
    "C05": dict(keys=[K1], vals=["31"], ttls=[0, 1, 2, 3], cas=["0"], ticks=[1, 2, 3, 4],
                ops=["get", "set", "add", "replace", "append", "incr", "flush"], depth=4,
                thorough=dict(depth=6, ops=["get", "set", "add", "replace", "append", "prepend", "incr", "decr", "flush", "delete"])),
    "C06": dict(keys=[K1], vals=["61", "6262", ""], flags=["0", "7"], ttls=[0, 1], cas=["0", "1"], ticks=[1],
                ops=["get", "set", "add", "replace", "append", "prepend", "delete", "flush"], depth=4,
                thorough=dict(depth=5, keys=[K1, K2], vals=["61", ""])),
    "C07": dict(keys=[K1], vals=["30", "39", "78", "2b31", "", "3130", "303039"], flags=["0", "7"], ttls=[0, 1], cas=["0", "2"],
                deltas=["0", "1", "9"], inits=["0", "9"], ticks=[1],
                ops=["get", "set", "incr", "decr"], depth=3,
                thorough=dict(depth=4, ops=["get", "set", "incr", "decr", "append", "prepend", "delete"])),
    "C08": dict(keys=[K1, K2], vals=["61"], ttls=[0, 1, 2], cas=["0", "1", "2"], ticks=[1, 2, 3],
                ops=["get", "set", "delete", "flush"], depth=4,
                thorough=dict(depth=5, ops=["get", "set", "add", "delete", "flush"])),
    "C14": dict(keys=[K1, K2, K3], vals=["", "61", "616161"], ttls=[0, 1], cas=["0"], ticks=[1],
                policy="random", L=50, ops=["get", "set", "append", "incr", "delete", "flush"], depth=4,
                thorough=dict(depth=5)),
    "C15": dict(keys=[K1, K2], vals=["", "6161"], ttls=[0, 1], cas=["0", "1"], ticks=[1, 2],
                policy="random", L=1000, ops=["get", "set", "add", "replace", "append", "incr", "delete", "flush"], depth=4,
                thorough=dict(depth=5)),
    "C19": dict(quiet_inv=True, keys=[K1], vals=["61", "31"], flags=["0", "7"], ttls=[0, 1], cas=["0", "1"], ticks=[1], quiets=[False, True],
                ops=["get", "set", "add", "replace", "append", "prepend", "incr", "decr", "delete", "flush"], depth=3,
                thorough=dict(depth=4)),
}
# a second, differently shaped configuration for some properties
MC_EXTRA = {
    "C14": [dict(keys=[K1, K2], vals=["61", "616161"], ttls=[0], cas=["0"], policy="random", L=0,
                 ops=["get", "set", "append", "delete"], depth=4, thorough=dict(depth=5)),
            dict(keys=[K1, K2, K3], vals=["61"], ttls=[0], cas=["0"], policy="random", L=25,
                 ops=["get", "set", "add", "delete", "flush"], depth=4, thorough=dict(depth=5))],
}

# random workload profiles of the harness: (profile, histories quick, histories thorough)
PROFILES = {
    "C01": [("general", 60, 900), ("big", 20, 300), ("quiet", 20, 300), ("huge", 5, 60), ("evict_near", 60, 600)],
    "C02": [("cas", 80, 1200), ("general", 30, 400)],
    "C05": [("expiry", 80, 1200), ("delflush", 30, 400)],
    "C06": [("cond", 80, 1200), ("big", 20, 300), ("huge", 4, 40)],
    "C07": [("counter", 90, 1400), ("general", 20, 300)],
    "C08": [("delflush", 80, 1200), ("expiry", 30, 400)],
    "C14": [("evict_tight", 70, 1000)],
    "C15": [("evict_roomy", 40, 500), ("evict_tight", 20, 300), ("evict_near", 60, 600)],
    "C19": [("quiet", 60, 900), ("quietpair", 60, 900), ("general", 20, 300)],
}

# rules that must have been exercised by the traces of a run (vacuity guard)
REQUIRED = {
    "C01": ["get.hit", "get.miss", "store.live.ok", "store.absent.ok", "delete.ok"],
    "C02": ["store.cas.mismatch", "store.live.ok", "concat.cas.mismatch", "delete.cas.mismatch", "store.absent.clientcas"],
    "C05": ["get.miss", "get.hit", "flush.delayed", "replace.absent", "concat.absent", "delta.create"],
    "C06": ["add.present", "replace.absent", "concat.ok", "concat.absent", "store.absent.ok"],
    "C07": ["delta.ok", "delta.create", "delta.create.clientcas", "delta.nocreate", "delta.nonnumeric"],
    "C08": ["delete.ok", "delete.absent", "delete.cas.mismatch", "flush.now", "flush.delayed"],
    "C14": ["store.absent.ok+evicted", "store.live.ok"],
    "C15": ["store.live.ok", "concat.ok", "delta.ok", "delete.ok", "flush.now"],
    "C19": ["get.miss", "store.live.ok", "delete.ok", "add.present", "pair.final"],
}

ASSUMPTIONS = [
    "exhaustive part: bounded constants of MC_Store (2-3 keys, <=6 values, small TTL/CAS/clock sets, depth <= MaxSteps); u64 universe shrunk to 0..9 so wrap-around is reachable",
    "binding: recorded executions of the crate built from /repo's working tree (cfg memcrs_verif) are validated by TLC against MemcContract (verdict) and MemcStore (conformance); the harness converts bytes <-> logged fields and contains no oracle",
    "clock injected through the public Timer trait; TTLs above 2^30 s logged clipped; histories are sequential (one command at a time)",
    "readings of under-specified corners are lenient (DESIGN.md 4a, G1-G17)",
]


def effective(cfg, tier):
    c = dict(cfg)
    t = c.pop("thorough", {})
    if tier == "thorough":
        c.update(t)
    return c


def run_mc(pid, tier, d):
    """Bounded exhaustive check that the model of the code refines the contract."""
    results = []
    cfgs = [MC[pid]] + MC_EXTRA.get(pid, [])
    for i, cfg in enumerate(cfgs):
        c = effective(cfg, tier)
        name = "MC_%s_%d" % (pid, i)
        path = os.path.join(d, name + ".cfg")
        open(path, "w").write(cfg_text(c))
        r = tlc_mc_path("MC_Store", path, name=name, workers=10 if tier == "quick" else 14,
                        timeout=600 if tier == "quick" else 3000)
        r["constants"] = {k: v for k, v in c.items()}
        results.append(r)
    return results


def tlc_mc_path(spec, cfg_path, name, workers, timeout, extra=()):
    # vlib.tlc_mc takes a cfg name inside spec/: link the generated file there under a work name
    import shutil
    dst = os.path.join(SPEC, "_gen_" + name + ".cfg")
    shutil.copy(cfg_path, dst)
    try:
        return tlc_mc(spec, "_gen_" + name, workers=workers, timeout=timeout, name=name, extra=extra)
    finally:
        try:
            os.remove(dst)
        except OSError:
            pass


def gen_programs(pid, tier, seed, d):
    """TLC-generated behaviours of the model (simulation mode) as replayable programs."""
    c = effective(MC[pid], tier)
    depth = 24 if tier == "quick" else 40
    num = 250 if tier == "quick" else 2500
    keep = 400 if tier == "quick" else 4000
    # a two-digit universe so that the CAS counter does not end the behaviours early
    c2 = dict(c, maxu="99")
    for fld in ("cas", "deltas", "inits"):
        if fld in c2:
            c2[fld] = ["99" if x == "9" else x for x in c2[fld]]
    c2["ops"] = [o for o in c2["ops"]]
    name = "GEN_%s" % pid
    path = os.path.join(d, name + ".cfg")
    open(path, "w").write(cfg_text(c2, emit=True, max_steps=depth))
    r = tlc_mc_path("MC_Store", path, name=name, workers=1, timeout=900,
                    extra=["-simulate", "num=%d" % num, "-depth", str(depth + 2), "-seed", str(seed)])
    if not r["ok"]:
        raise ToolError("TLC simulation of %s failed: %s (see %s)" % (name, r["violated"], r["out_file"]))
    progs = []
    for line in open(r["out_file"]):
        line = line.strip()
        if line.startswith('"PROG '):
            progs.append(json.loads(line)[len("PROG "):])
    # TLC prints one program per successor of the last step; keep a seeded sample
    import random
    random.Random(seed).shuffle(progs)
    progs = progs[:keep]
    # exhaustive short behaviours: every behaviour of length 2
    return progs, r


def classify(pid, results, findings):
    """Collects violations (hard: tags; soft: notes) that belong to property pid."""
    out = []
    known = []
    for res in results:
        for v in res.get("violations", []):
            if pid in v.get("tags", []):
                ident = {"kind": "rule", "rule": v["rule"], "op": v.get("op")}
                f = match_finding(findings, pid, ident)
                (known if f else out).append((res, v, ident, f))
        for n in res.get("notes", []):
            if n[0].startswith(pid + "|") or (pid == "C01" and n[0].startswith("C15|evict")):
                ident = {"kind": "note", "note": n[0]}
                v = {"line": n[2], "rule": n[0], "tags": [pid], "hist": None, "op": None}
                f = match_finding(findings, pid, ident)
                (known if f else out).append((res, v, ident, f))
    return out, known


def run(pid, tier, seed, replay=None, extra=None):
    t0 = time.time()
    findings = load_findings()
    build_s = build_harness()
    d = workdir("check-" + pid)
    results = []
    drift_results = []
    mc_results = []
    gen_info = None
    if replay:
        rp = json.load(open(replay))
        pf = os.path.join(d, "replay.prog.json")
        open(pf, "w").write(json.dumps(rp["program"]) + "\n")
        results.append(seqlib.run_programs(pf, "replay-" + pid, pairs=bool(rp.get("pairs"))))
    else:
        # 1. exhaustive: model of the code refines the contract
        mc_results = run_mc(pid, tier, d)
        for r in mc_results:
            if not r["ok"]:
                raise ToolError("model checking %s: %s violated - the model of the code (MemcStore) does not refine the "
                                "contract; see %s" % (r["cfg"], r["violated"], r["out_file"]))
        # 2. spec -> code: TLC-generated behaviours replayed against the crate
        progs, gen_info = gen_programs(pid, tier, seed, d)
        if not progs:
            raise ToolError("TLC emitted no behaviours for %s" % pid)
        pf = os.path.join(d, "tlc.prog.json")
        with open(pf, "w") as f:
            for p in progs:
                f.write(p + "\n")
        results.append(seqlib.run_programs(pf, "gen-" + pid, phys=True))
        drift_results.append(tlc_trace(results[-1]["trace_file"], spec="MemcStoreTrace", name="drift-gen-" + pid))
        # 3. regression programs (histories of repaired defects)
        reg = os.path.join(VERIF, "regress", pid + ".json")
        if os.path.exists(reg):
            results.append(seqlib.run_programs(reg, "regress-" + pid, phys=True))
            drift_results.append(tlc_trace(results[-1]["trace_file"], spec="MemcStoreTrace", name="drift-reg-" + pid))
        # 4. code -> spec: seeded random workloads far beyond the bound
        jobs = []
        for (profile, nq, nt) in PROFILES[pid]:
            total = nq if tier == "quick" else nt
            chunk = 40 if tier == "quick" else 100
            i = 0
            while total > 0:
                jobs.append((profile, min(chunk, total), seed * 1000 + i))
                total -= chunk
                i += 1
        rr = seqlib.gen_and_validate(jobs, "rand-" + pid, phys=True)
        results.extend(rr)
        # conformance to the model of the code on a sample of the random traces
        cand = [r for r in rr if r["job"][0] not in ("quietpair", "huge")]     # (recorded without the physical snapshot)
        sample = cand if tier == "thorough" else cand[:3]
        drift_results.extend(parallel(lambda r: tlc_trace(r["trace_file"], spec="MemcStoreTrace",
                                                           name="drift-" + os.path.basename(r["trace_file"])), sample, workers=8))

    bad, known = classify(pid, results, findings)
    # coverage / vacuity
    cov = {}
    for r in results:
        for c in r.get("coverage", []):
            cov[c[0]] = cov.get(c[0], 0) + c[1]
    if not replay:
        missing = [x for x in REQUIRED.get(pid, []) if not any(k == x or k.endswith("/" + x) or k.startswith(x + "+") for k in cov)]
        if missing and not bad:
            raise ToolError("vacuous run for %s: contract rules never exercised: %s" % (pid, missing))
    ndrift = sum(len(r["violations"]) for r in drift_results)
    for r in drift_results:
        for v in r["violations"][:3]:
            log("DRIFT: model-of-code mismatch (%s) at %s line %s op=%s key=%s" % (v["why"], r["trace_file"], v["line"], v["op"], v["key"][:16]))
    seen_known = set()
    for (res, v, ident, f) in known:
        if f["id"] not in seen_known:
            seen_known.add(f["id"])
            log("KNOWN-FINDING: property=%s %s" % (pid, f["what"]))
    replays = []
    seen = set()
    for (res, v, ident, f) in bad:
        key = (v["rule"],)
        if key in seen and len(replays) >= 3:
            continue
        seen.add(key)
        ctx = seqlib.violation_context(res, v)
        path = write_replay(pid, {"driver": "seq", "property": pid, "rule": v["rule"], "tags": sorted(v["tags"]),
                                  "pairs": ctx["event"].get("e") == "final",
                                  "program": ctx["program"], "event": ctx["event"],
                                  "line": v["line"], "trace_tail": ctx["history_events"][-12:]})
        replays.append(path)
        log("VIOLATION property=%s replay=%s" % (pid, path))
        log("  rule %s at event: %s" % (v["rule"], seqlib.slim(ctx["event"])[:300]))
    extra_bad, extra_cov = (0, {})
    if extra and not replay:
        extra_bad, extra_cov = extra(pid, tier, seed)
    events = sum(r.get("lines", 0) for r in results)
    hists = sum(r.get("histories", 0) for r in results)
    samples = []
    if results:
        evs = read_ndjson(results[0]["trace_file"])[:7]
        for e in evs:
            e.pop("phys", None)
        samples.append({"trace_head": evs})
    if mc_results:
        samples.append({"mc_constants": mc_results[0]["constants"]})
    coverage = {
        "states": sum(r["distinct"] for r in mc_results) if mc_results else max(1, sum(r["states"] for r in results)),
        "transitions": sum(r["generated"] for r in mc_results) if mc_results else max(1, events),
        "traces_validated_against_impl": hists,
        "samples": samples,
        "evaluations": events,
        "distinct_nontrivial": len([k for k in cov if cov[k] > 0]),
        "rule": "evaluations = recorded events judged by TLC against MemcContract; distinct_nontrivial = distinct contract rules "
                "(command kind x zone of the key x outcome) exercised by those events, counted by the trace spec",
        "exhaustive": bool(mc_results),
        "mc_runs": [{"cfg": r["cfg"], "distinct": r["distinct"], "generated": r["generated"], "wall_s": round(r["wall_s"], 1),
                     "constants": r["constants"]} for r in mc_results],
        "tlc_generated_behaviours_replayed": (len(progs) if not replay else 0),
        "rules_exercised": cov,
        "model_conformance": {"traces": len(drift_results), "events_matched": sum(r.get("matched", 0) for r in drift_results),
                              "drift": ndrift},
        "known_findings_seen": sorted(seen_known),
        "checker_cmd": "tlc MC_Store (refinement, -coverage 1); tlc MemcTrace / MemcStoreTrace over recorded NDJSON",
        "harness_build_s": round(build_s, 1),
    }
    coverage.update(extra_cov)
    write_evidence(pid, tier, seed, coverage, ASSUMPTIONS, time.time() - t0, len(bad) + extra_bad)
    return 1 if (bad or extra_bad) else 0
