--------------------------- MODULE MemcStoreTrace ---------------------------
(***************************************************************************)
(* Conformance of the real crate to the MODEL OF THE CODE: every recorded   *)
(* command must be one of the outcomes MemcStore!ExecSet predicts - same    *)
(* responses (status, CAS, lengths, key, value, flags, counter value), same *)
(* physical map afterwards (keys, values, flags, CAS, timestamp, ttl), same *)
(* CAS counter and accounted bytes.  A mismatch is DRIFT: the model no      *)
(* longer describes the code (it is not by itself a property violation).    *)
(***************************************************************************)
EXTENDS MemcStore, Json, IOUtils

Rec == ndJsonDeserialize(IOEnv.TRACE)
N   == Len(Rec)

VARIABLES l, m, dead, drift, hist, matched
vars == <<l, m, dead, drift, hist, matched>>

Init == l = 1 /\ m = InitModel({}, "none", 0, 0) /\ dead = FALSE /\ drift = <<>> /\ hist = 0 /\ matched = 0

SameFrame(e, a, b) ==      \* a: model, b: observed
    /\ a.st = b.st /\ a.cas = b.cas /\ a.el = b.el /\ a.kl = b.kl /\ a.bl = b.bl /\ a.key = b.key
    /\ a.op = b.op /\ a.opq = b.opq /\ b.magic = 129 /\ b.al = b.bl
    /\ IF a.st = 0 /\ e.op \in DeltaOps THEN a.n = b.n
       ELSE a.v = b.v /\ (a.el # 4 \/ a.f = b.f)
SameResp(e, r) == Len(r) = Len(e.r) /\ \A i \in 1..Len(r) : SameFrame(e, r[i], e.r[i])

SamePhys(mm, e) ==
    /\ Present(mm) = {e.phys[i].k : i \in 1..Len(e.phys)}
    /\ \A i \in 1..Len(e.phys) :
          LET p == e.phys[i]  r == mm.map[p.k] IN
          r.val = p.v /\ r.flags = p.f /\ r.cas = p.cas /\ r.ts = p.ts /\ r.ttl = p.ttl
    /\ mm.ctr = e.ctr
    /\ (mm.policy # "random" \/ NatToStr(mm.usage) = e.usage)

Step ==
    /\ l <= N
    /\ l' = l + 1
    /\ LET e == Rec[l] IN
       IF e.e = "reset" THEN
            /\ m' = InitModel(SeqRange(e.keys), e.cfg.policy, e.cfg.L, e.cfg.limit)
            /\ dead' = FALSE /\ hist' = e.h /\ UNCHANGED <<drift, matched>>
       ELSE IF dead \/ e.e \notin {"tick", "cmd"} THEN UNCHANGED <<m, dead, drift, hist, matched>>
       ELSE IF e.e = "tick" THEN m' = [m EXCEPT !.now = e.to] /\ UNCHANGED <<dead, drift, hist, matched>>
       ELSE LET outs == ExecSet(m, e)
                ok == {o \in outs : SameResp(e, o.r) /\ SamePhys(o.m, e)}
            IN  IF e.panic = FALSE /\ ok # {}
                THEN m' = (CHOOSE o \in ok : TRUE).m /\ matched' = matched + 1 /\ UNCHANGED <<dead, drift, hist>>
                ELSE /\ drift' = Append(drift, [line |-> l, hist |-> hist, op |-> e.op, key |-> e.k,
                                               why |-> IF e.panic THEN "panic"
                                                       ELSE IF \E o \in outs : SameResp(e, o.r) THEN "state" ELSE "response"])
                     /\ dead' = TRUE /\ UNCHANGED <<m, hist, matched>>
Next == Step
Spec == Init /\ [][Next]_vars
Report == l = N + 1 => PrintT("RESULT " \o ToJson([lines |-> N, violations |-> drift, coverage |-> <<>>, notes |-> <<>>, matched |-> matched]))
Accepted == TLCGet("stats").diameter - 1 = N
=============================================================================
