CONSTANTS
  MaxU = "99"
  Keys = {"6b31"}
  Vals = {"61", "31"}
  FlagVals = {"0", "7"}
  Ttls = {0, 1}
  CasVals = {"0", "1"}
  Deltas = {"1"}
  Inits = {"5"}
  Quiets = {FALSE, TRUE}
  Ops = {"get", "set", "add", "replace", "append", "prepend", "incr", "decr", "delete", "flush"}
  TickTo = {1}
  Policy = "none"
  MemLimit = 0
  ItemLimit = 64
  MaxSteps = 20
  Emit = TRUE
SPECIFICATION Spec
INVARIANT Refines
INVARIANT Accounting
INVARIANT EmptyZero
INVARIANT Bound
CONSTRAINT Bounded
CHECK_DEADLOCK FALSE
INVARIANT QuietSameEffect
INVARIANT EmitProg
