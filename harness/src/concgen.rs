//! Concurrent programs for the scheduler-driven exploration.
use crate::conc::Program;
use crate::prog::{CasSpec, Cmd};
use rand::rngs::SmallRng;
use rand::seq::SliceRandom;
use rand::Rng;

const K: &[u8] = b"ck";

fn cmd(op: &str, val: &[u8], cas: u64, ttl: u32, opq: u32) -> Cmd {
    Cmd { op: op.into(), q: false, gk: false, key: K.to_vec(), val: val.to_vec(), flags: 9, ttl, cas: CasSpec::Lit(cas), opaque: opq,
        delta: 1, initial: 10 }
}
fn cmdq(op: &str, val: &[u8], cas: u64, ttl: u32, opq: u32, gk: bool) -> Cmd {
    let mut c = cmd(op, val, cas, ttl, opq);
    c.q = true;
    c.gk = gk;
    c
}
fn flush(delay: u32, q: bool, opq: u32) -> Cmd {
    Cmd { op: "flush".into(), q, gk: false, key: vec![], val: vec![], flags: 0, ttl: delay, cas: CasSpec::Lit(0), opaque: opq, delta: 0, initial: 0 }
}
fn tick(t: u64) -> Cmd {
    Cmd { op: "tick".into(), q: false, gk: false, key: vec![], val: vec![], flags: 0, ttl: 0, cas: CasSpec::Lit(0), opaque: 0, delta: t, initial: 0 }
}

/// initial states of the key: absent, present (value "5", CAS 1), present but expired
pub fn setup(init: &str) -> Vec<Cmd> {
    match init {
        "present" => vec![cmd("set", b"5", 0, 0, 1)],
        "expired" => vec![cmd("set", b"5", 0, 1, 1), tick(5)],
        _ => vec![],
    }
}

/// the single-command vocabulary; `w` makes values distinct per client
pub fn vocab(kind: &str, w: usize) -> Vec<Cmd> {
    let v = format!("{}", 7 + w).into_bytes(); // numeric, distinct per client
    let t = format!("<{}>", w).into_bytes();
    let o = 100 * (w as u32 + 1);
    let mut base = vec![
        cmd("get", b"", 0, 0, o + 1),
        cmd("set", &v, 0, 0, o + 2),
        cmd("set", &v, 1, 0, o + 3),  // CAS-store with the token of the initial item
        cmd("set", &v, 77, 0, o + 4), // stale / foreign token
        cmd("delete", b"", 0, 0, o + 5),
        cmd("delete", b"", 1, 0, o + 6),
        cmd("set", &v, 0, 3, o + 15), // a store that itself carries a (short) TTL
    ];
    if kind == "C08" {
        // deletes and flushes (immediate / delayed) against everything that rewrites a record
        return vec![
            cmd("delete", b"", 0, 0, o + 1),
            cmd("delete", b"", 1, 0, o + 2),
            flush(0, false, o + 3),
            flush(2, false, o + 4),
            cmd("get", b"", 0, 0, o + 5),
            cmd("set", &v, 0, 0, o + 6),
            cmd("set", &v, 0, 3, o + 7),
            cmd("add", &v, 0, 0, o + 8),
            cmd("replace", &v, 0, 0, o + 9),
            cmd("append", &t, 0, 0, o + 10),
            cmd("prepend", &t, 0, 0, o + 11),
            cmd("incr", b"", 0, 0, o + 12),
            cmd("set", &v, 1, 0, o + 13),
        ];
    }
    if kind == "C19" {
        // quiet commands against each other and against the loud ones
        return vec![
            cmdq("get", b"", 0, 0, o + 1, false),
            cmdq("get", b"", 0, 0, o + 2, true),
            cmdq("set", &v, 0, 0, o + 3, false),
            cmdq("add", &v, 0, 0, o + 4, false),
            cmdq("replace", &v, 0, 0, o + 5, false),
            cmdq("append", &t, 0, 0, o + 6, false),
            cmdq("incr", b"", 0, 0, o + 7, false),
            cmdq("delete", b"", 0, 0, o + 8, false),
            flush(0, true, o + 9),
            cmd("get", b"", 0, 0, o + 10),
            cmd("set", &v, 0, 3, o + 11),
            cmd("delete", b"", 0, 0, o + 12),
            flush(0, false, o + 13),
        ];
    }
    if kind == "C04" {
        base.extend(vec![
            cmd("add", &v, 0, 0, o + 7),
            cmd("replace", &v, 0, 0, o + 8),
            cmd("append", &t, 0, 0, o + 9),
            cmd("prepend", &t, 0, 0, o + 10),
            cmd("incr", b"", 0, 0, o + 11),
            cmd("decr", b"", 0, 0, o + 12),
            cmd("incr", b"", 1, 0, o + 13),
            cmd("append", &t, 1, 0, o + 14),
            cmd("add", &v, 0, 3, o + 16),
        ]);
    }
    base
}

fn prog(kind: &str, init: &str, clients: Vec<Vec<Cmd>>, name: String) -> Program {
    // delayed flushes are observed after their delay has run out
    let post_tick = if kind == "C08" { if init == "expired" { 9 } else { 4 } } else { 0 };
    Program { layer: "memc".into(), name, kind: kind.into(), init: init.into(), policy: "none".into(), mem_limit: 0, keys: vec![K.to_vec()], setup: setup(init), clients,
        post_tick }
}

/// all two-client programs with one command each (unordered pairs), for every initial state
pub fn pairs(kind: &str) -> Vec<Program> {
    let mut out = Vec::new();
    for init in ["absent", "present", "expired"] {
        let a = vocab(kind, 0);
        let b = vocab(kind, 1);
        for i in 0..a.len() {
            for j in i..b.len() {
                // for C04 at least one read-modify-write command, for C08 a delete or flush, for C19 a quiet command
                if kind == "C04" && i < 7 && j < 7 {
                    continue;
                }
                // (on a key whose item is dead but not collected yet - by its TTL here, by a delayed flush in general - also the
                // lookups and stores against each other: what is dead stays unretrievable whoever collects it)
                if kind == "C08" && i >= 4 && j >= 4 && !(init == "expired" && matches!(a[i].op.as_str(), "get" | "set" | "add") && matches!(b[j].op.as_str(), "get" | "set" | "add")) {
                    continue;
                }
                if kind == "C19" && !a[i].q && !b[j].q {
                    continue;
                }
                out.push(prog(kind, init, vec![vec![a[i].clone()], vec![b[j].clone()]], format!("{}-{}-{}+{}", kind, init, a[i].op, b[j].op)));
            }
        }
    }
    out
}

/// sampled larger programs: 2 clients x 2 commands, 3 clients x 1..2 commands
pub fn sampled(kind: &str, n: usize, rng: &mut SmallRng) -> Vec<Program> {
    let mut out = Vec::new();
    for x in 0..n {
        let init = *["absent", "present", "expired"].choose(rng).unwrap();
        let nc = if rng.gen_bool(0.5) { 2 } else { 3 };
        let mut clients = Vec::new();
        for w in 0..nc {
            let v = vocab(kind, w);
            let len = if nc == 2 { 2 } else { rng.gen_range(1..=2) };
            let mut cl = Vec::new();
            for _ in 0..len {
                let mut c = v.choose(rng).unwrap().clone();
                // for C04 programs prefer the read-modify-write commands
                if kind == "C04" && rng.gen_bool(0.6) {
                    c = v[7 + rng.gen_range(0..9)].clone();
                }
                cl.push(c);
            }
            clients.push(cl);
        }
        out.push(prog(kind, init, clients, format!("{}-sampled-{}", kind, x)));
    }
    out
}

/// N identical commands (the counting claims of C04): N adds, N increments, N appends
pub fn swarms(kind: &str) -> Vec<Program> {
    let mut out = Vec::new();
    if kind != "C04" {
        // N concurrent CAS-stores carrying the same CAS: at most one succeeds
        for init in ["present"] {
            let clients: Vec<Vec<Cmd>> = (0..3).map(|w| vec![vocab("C03", w)[2].clone()]).collect();
            out.push(prog(kind, init, clients, format!("{}-swarm-casset", kind)));
        }
        return out;
    }
    for (op_idx, init) in [(7usize, "absent"), (7, "expired"), (15, "expired"), (11, "present"), (11, "absent"), (9, "present"), (12, "present")] {
        let clients: Vec<Vec<Cmd>> = (0..3).map(|w| vec![vocab(kind, w)[op_idx].clone()]).collect();
        out.push(prog(kind, init, clients, format!("{}-swarm-{}-{}", kind, vocab(kind, 0)[op_idx].op, init)));
    }
    out
}

/// C14 / C16: stores under eviction pressure, flushes, several keys
pub fn eviction(kind: &str, n: usize, rng: &mut SmallRng) -> Vec<Program> {
    let mut out = Vec::new();
    let keys: Vec<Vec<u8>> = (0..4).map(|i| format!("e{}", i).into_bytes()).collect();
    for x in 0..n {
        let limit = *[0u64, 30, 60, 90].choose(rng).unwrap();
        let mut setup = Vec::new();
        let with_expired = rng.gen_bool(0.5);
        for (ki, k) in keys.iter().take(rng.gen_range(0..=3)).enumerate() {
            // some items carry a TTL that will have run out (but nobody has looked at them since)
            let ttl = if with_expired && ki % 2 == 0 { 1 } else { 0 };
            let mut c = cmd("set", &vec![b'x'; rng.gen_range(0..30)], 0, ttl, 1);
            c.key = k.clone();
            setup.push(c);
        }
        if with_expired {
            setup.push(tick(5));
        }
        let nc = if rng.gen_bool(0.6) { 2 } else { 3 };
        let mut clients = Vec::new();
        for w in 0..nc {
            let mut cl = Vec::new();
            for i in 0..rng.gen_range(1..=2) {
                let k = keys.choose(rng).unwrap().clone();
                let mut c = match rng.gen_range(0..12) {
                    10 | 11 => cmd("get", b"", 0, 0, (w * 10 + i) as u32),
                    0..=5 => cmd("set", &vec![b'a' + w as u8; rng.gen_range(0..40)], 0, 0, (w * 10 + i) as u32),
                    6 => cmd("append", b"zz", 0, 0, (w * 10 + i) as u32),
                    7 => cmd("delete", b"", 0, 0, (w * 10 + i) as u32),
                    8 => cmd("get", b"", 0, 0, (w * 10 + i) as u32),
                    _ => cmd("flush", b"", 0, 0, (w * 10 + i) as u32),
                };
                c.key = k;
                cl.push(c);
            }
            clients.push(cl);
        }
        if with_expired && rng.gen_bool(0.5) {
            // the clock as one more client: a second (or two) passes somewhere in the middle of the other commands,
            // so that records stored with a short TTL during the run expire during the run
            for cl in clients.iter_mut() {
                for c in cl.iter_mut() {
                    if c.op == "set" && rng.gen_bool(0.5) {
                        c.ttl = 1;
                    }
                }
            }
            clients.push(vec![tick(5 + rng.gen_range(1..=2))]);
        }
        out.push(Program { layer: "memc".into(), name: format!("{}-evict-{}", kind, x), kind: kind.into(), init: "mixed".into(), policy: "random".into(),
            mem_limit: limit, keys: keys.clone(), setup, clients, post_tick: 0 });
    }
    out
}

/// OS-thread stress: 3-5 threads with 1-2 commands each on one key
pub fn stress(kind: &str, n: usize, rng: &mut SmallRng) -> Vec<Program> {
    let mut out = Vec::new();
    for x in 0..n {
        let init = *["absent", "present", "expired"].choose(rng).unwrap();
        let nc = rng.gen_range(3..=5);
        let mut clients = Vec::new();
        let mut total = 0;
        for w in 0..nc {
            let v = vocab(kind, w);
            let len = if total >= 6 { 1 } else { rng.gen_range(1..=2) };
            total += len;
            clients.push((0..len).map(|_| v.choose(rng).unwrap().clone()).collect());
        }
        out.push(prog(kind, init, clients, format!("{}-stress-{}", kind, x)));
    }
    out
}

/// C14 / C15: accounting under races with the clock.  One key holding a large record that has expired but has not been
/// collected; one client whose command looks the key up (and so collects it lazily), one that stores a record of another
/// size with a short TTL (or deletes / appends), and the clock as a third client: a second passes at any point.
/// Policy random with a far-away limit: judged for completion and for usage = stored bytes at quiescence.
pub fn clocked(kind: &str) -> Vec<Program> {
    let mut out = Vec::new();
    let mut big = cmd("set", &vec![b'B'; 40], 0, 1, 1);
    big.key = K.to_vec();
    let setup = vec![big, tick(5)];
    let lookers = vec![cmd("get", b"", 0, 0, 11), cmd("add", b"7", 0, 0, 12), cmd("replace", b"7", 0, 0, 13), cmd("incr", b"", 0, 0, 14), cmd("append", b"zz", 0, 0, 15)];
    let writers = vec![cmd("set", b"s", 0, 1, 21), cmd("set", b"s", 0, 0, 22), cmd("set", &vec![b'L'; 90], 0, 1, 23), cmd("add", b"s", 0, 1, 24),
        cmd("delete", b"", 0, 0, 25), cmd("get", b"", 0, 0, 26)];
    for (i, a) in lookers.iter().enumerate() {
        for (j, b) in writers.iter().enumerate() {
            for t in [6u64, 7] {
                out.push(Program { layer: "memc".into(), name: format!("{}-clocked-{}-{}-{}", kind, i, j, t), kind: kind.into(), init: "expired".into(),
                    policy: "random".into(), mem_limit: 10000, keys: vec![K.to_vec()], setup: setup.clone(),
                    clients: vec![vec![a.clone()], vec![b.clone()], vec![tick(t)]], post_tick: 0 });
            }
        }
    }
    out
}
