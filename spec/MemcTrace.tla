------------------------------ MODULE MemcTrace ------------------------------
(***************************************************************************)
(* Trace validation of recorded executions of the real crate against the   *)
(* contract.  The NDJSON file named by the environment variable TRACE is a  *)
(* sequence of histories (`reset` ... ); each event is consumed by exactly  *)
(* one step; a history ends at its first rejected event (the rest of it is  *)
(* skipped, the following histories are still checked).  The result -       *)
(* rejected events with the property tags of the failing rules, and per     *)
(* rule exercise counts - is printed as one JSON line at the last state.    *)
(***************************************************************************)
EXTENDS MemcContract, Json, IOUtils

Rec == ndJsonDeserialize(IOEnv.TRACE)
N   == Len(Rec)

VARIABLES l, cs, dead, viol, cov, hist, noted, ord, pair
vars == <<l, cs, dead, viol, cov, hist, noted, ord, pair>>

Empty == InitState({}, "none", 0, 0, FALSE)

Init == l = 1 /\ cs = {Empty} /\ dead = FALSE /\ viol = <<>> /\ cov = <<>> /\ hist = 0 /\ noted = <<>> /\ ord = <<0, 0>> /\ pair = <<>>

Count(c, rule) == IF \E i \in 1..Len(c) : c[i][1] = rule
                  THEN [i \in 1..Len(c) |-> IF c[i][1] = rule THEN <<rule, c[i][2] + 1>> ELSE c[i]]
                  ELSE Append(c, <<rule, 1>>)

RECURSIVE CountAll(_, _)
CountAll(c, rules) == IF rules = {} THEN c
                      ELSE LET r == CHOOSE x \in rules : TRUE IN CountAll(Count(c, r), rules \ {r})
(* notes: <<identity, count, first line>> *)
Note(c, id, line) == IF \E i \in 1..Len(c) : c[i][1] = id
                     THEN [i \in 1..Len(c) |-> IF c[i][1] = id THEN <<id, c[i][2] + 1, c[i][3]>> ELSE c[i]]
                     ELSE Append(c, <<id, 1, line>>)
RECURSIVE NoteAll(_, _, _)
NoteAll(c, ids, line) == IF ids = {} THEN c
                         ELSE LET r == CHOOSE x \in ids : TRUE IN NoteAll(Note(c, r, line), ids \ {r}, line)
Pick(S) == CHOOSE x \in S : TRUE

(* C12 (socket traces only): responses arrive in the order of their requests.  `ord` is      *)
(* <<batch, index of the last response seen in that batch's response stream>>.               *)
HasOrder(e) == "bi" \in DOMAIN e
OrderOK(e) == ~HasOrder(e) \/ Len(e.r) = 0 \/ e.bi # ord[1] \/ e.r[1].ri > ord[2]
NextOrd(e) == IF HasOrder(e) /\ Len(e.r) > 0 THEN <<e.bi, e.r[Len(e.r)].ri>>
              ELSE IF HasOrder(e) /\ e.bi # ord[1] THEN <<e.bi, 0 - 1>> ELSE ord

Step ==
    /\ l <= N
    /\ l' = l + 1
    /\ ord' = IF Rec[l].e = "reset" THEN <<0, 0>> ELSE IF Rec[l].e = "cmd" /\ ~dead THEN NextOrd(Rec[l]) ELSE ord
    /\ pair' = IF Rec[l].e = "final" /\ Rec[l].side = "a" THEN <<Rec[l]>> ELSE pair
    /\ LET e == Rec[l] IN
       IF e.e = "reset" THEN
            /\ cs' = {InitState(SeqRange(e.keys), e.cfg.policy, e.cfg.L, e.cfg.limit, e.obs)}
            /\ dead' = FALSE /\ hist' = e.h /\ UNCHANGED <<viol, cov, noted>>
       ELSE IF e.e = "final" THEN
            \* C19: side b is side a's program with every quiet bit flipped; the items left behind must be the same
            IF e.side = "b" /\ pair # <<>> /\ pair[1].pair = e.pair /\ pair[1].state # e.state THEN
                /\ viol' = Append(viol, [line |-> l, hist |-> hist, tags |-> {"C19"}, rule |-> "quiet.variant.changed.the.stored.items",
                                         rules |-> {}, op |-> "", key |-> "", now |-> 0])
                /\ UNCHANGED <<cs, dead, cov, hist, noted>>
            ELSE cov' = Count(cov, "pair.final") /\ UNCHANGED <<cs, dead, viol, hist, noted>>
       ELSE IF dead THEN UNCHANGED <<cs, dead, viol, cov, hist, noted>>
       ELSE IF e.e = "tick" THEN cs' = TickAll(cs, e.to) /\ UNCHANGED <<dead, viol, cov, hist, noted>>
       ELSE IF e.e = "hang" THEN
            \* the command did not return (watchdog of the driver): C16, and C14's "eviction always terminates"
            /\ viol' = Append(viol, [line |-> l, hist |-> hist,
                                     tags |-> {"C16", "C10"} \cup (IF (CHOOSE c \in cs : TRUE).policy = "random" THEN {"C14"} ELSE {}),
                                     rule |-> "command.did.not.return", rules |-> {}, op |-> e.op, key |-> e.k, now |-> 0])
            /\ dead' = TRUE /\ UNCHANGED <<cs, cov, hist, noted>>
       ELSE IF e.e = "stray" \/ ~OrderOK(e) THEN
            /\ viol' = Append(viol, [line |-> l, hist |-> hist, tags |-> {"C12", "C11"},
                                     rule |-> IF e.e = "stray" THEN "stray.response" ELSE "out.of.order",
                                     rules |-> {}, op |-> "", key |-> "", now |-> 0])
            /\ dead' = TRUE /\ UNCHANGED <<cs, cov, hist, noted>>
       ELSE LET j == JudgeAll(cs, e) IN
            /\ cov' = CountAll(cov, j.rules)
            /\ hist' = hist
            /\ noted' = NoteAll(noted, j.notes, l)
            /\ IF j.tags = {} THEN cs' = j.sts /\ UNCHANGED <<dead, viol>>
               ELSE /\ viol' = Append(viol, [line |-> l, hist |-> hist, tags |-> j.tags, rule |-> Pick(j.rules),
                                             rules |-> j.rules, op |-> e.op, key |-> e.k,
                                             now |-> (CHOOSE c \in cs : TRUE).now])
                    /\ dead' = TRUE /\ cs' = cs

Next == Step
Spec == Init /\ [][Next]_vars

Report == l = N + 1 =>
          PrintT("RESULT " \o ToJson([lines |-> N, violations |-> viol, coverage |-> cov, notes |-> noted]))
Accepted == TLCGet("stats").diameter - 1 = N
=============================================================================
