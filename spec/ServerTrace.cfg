CONSTANTS
  Conns <- TracePorts
  Listeners = {l1}
  Limit = 0
  Shared = TRUE
  Ways = {"quit"}
SPECIFICATION TSpec
INVARIANT Report
INVARIANT TraceInv
POSTCONDITION Accepted
CHECK_DEADLOCK FALSE
