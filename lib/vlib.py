"""Shared helpers of the ./check orchestrator: building the harness, running TLC
(model checking and trace validation), known-findings matching, evidence."""
import concurrent.futures
import hashlib
import json
import os
import re
import shutil
import subprocess
import sys
import time

VERIF = os.path.dirname(os.path.dirname(os.path.abspath(__file__)))
SPEC = os.path.join(VERIF, "spec")
HARNESS = os.path.join(VERIF, "harness")
BIN = os.path.join(HARNESS, "target", "debug", "mcverif")
WORK = os.path.join(VERIF, "work")
REPLAYS = os.path.join(VERIF, "replays")
EVIDENCE = os.path.join(VERIF, "evidence")
TLA_JAR = "/opt/veriftools/tla/tla2tools.jar:/opt/veriftools/tla/CommunityModules-deps.jar"


class ToolError(Exception):
    pass


class HarnessCrash(ToolError):
    """The harness process (which runs the code under test in-process) died from a signal / abort."""
    def __init__(self, msg, rc):
        ToolError.__init__(self, msg)
        self.rc = rc


def log(*a):
    print(*a, flush=True)


def build_harness():
    """cargo build of the harness: recompiles /repo/memcrs from its current working tree
    with --cfg memcrs_verif (see harness/.cargo/config.toml)."""
    t0 = time.time()
    env = dict(os.environ, CARGO_NET_OFFLINE="true")
    p = subprocess.run(["cargo", "build", "--offline"], cwd=HARNESS, env=env,
                       stdout=subprocess.PIPE, stderr=subprocess.STDOUT, text=True)
    if p.returncode != 0:
        tail = "\n".join(p.stdout.splitlines()[-40:])
        raise ToolError("harness build failed (does /repo compile with --cfg memcrs_verif?)\n" + tail)
    return time.time() - t0


def workdir(name, clean=True):
    d = os.path.join(WORK, name)
    if clean and os.path.isdir(d):
        shutil.rmtree(d, ignore_errors=True)
    os.makedirs(d, exist_ok=True)
    return d


def harness(args, timeout=900, check=True):
    try:
        p = subprocess.run([BIN] + [str(a) for a in args], stdout=subprocess.PIPE, stderr=subprocess.PIPE,
                           text=True, timeout=timeout)
    except subprocess.TimeoutExpired:
        raise ToolError("harness %s did not finish within %s s" % (args[:6], timeout))
    if check and (p.returncode < 0 or p.returncode in (134, 137, 139)):
        raise HarnessCrash("harness %s died with rc=%s: %s" % (args[:6], p.returncode, p.stderr[-1500:]), p.returncode)
    if check and p.returncode != 0:
        raise ToolError("harness %s failed rc=%s: %s" % (args[:3], p.returncode, p.stderr[-2000:]))
    out = p.stdout.strip().splitlines()
    try:
        return json.loads(out[-1]) if out else {}
    except Exception:
        return {"raw": p.stdout[-2000:], "rc": p.returncode}


def _tlc_cmd(spec, cfg, metadir, workers, extra=(), xmx="3g", deque=False, xss="1g"):
    opts = ["-XX:+UseParallelGC", "-Xmx" + xmx, "-Xss" + xss]
    if deque:
        opts.append("-Dtlc2.tool.queue.IStateQueue=StateDeque")
    return (["java"] + opts + ["-cp", TLA_JAR, "tlc2.TLC", "-workers", str(workers), "-metadir", metadir,
             "-noGenerateSpecTE", "-config", cfg] + list(extra) + [spec])


def tlc_trace(trace_file, spec="MemcTrace", cfg=None, name=None, timeout=1800, deque=False):
    """Validates one NDJSON trace file against a trace spec.  Returns the parsed RESULT object."""
    name = name or (spec + "-" + os.path.basename(trace_file))
    d = workdir("tv-" + name)
    cfgp = os.path.join(SPEC, (cfg or spec) + ".cfg")
    specp = os.path.join(SPEC, spec + ".tla")
    env = dict(os.environ, TRACE=trace_file)
    env.pop("JAVA_TOOL_OPTIONS", None)
    t0 = time.time()
    try:
        p = subprocess.run(_tlc_cmd(specp, cfgp, os.path.join(d, "md"), 1, deque=deque, xmx="2g"), cwd=d, env=env,
                           stdout=subprocess.PIPE, stderr=subprocess.STDOUT, text=True, timeout=timeout)
    except subprocess.TimeoutExpired:
        raise ToolError("TLC trace validation timed out on %s" % trace_file)
    out = p.stdout
    open(os.path.join(d, "tlc.out"), "w").write(out)
    res = None
    for line in out.splitlines():
        line = line.strip()
        if line.startswith('"RESULT '):
            try:
                res = json.loads(json.loads(line)[len("RESULT "):])
            except Exception as ex:
                raise ToolError("cannot parse RESULT line of %s: %s" % (trace_file, ex))
    if res is None or "Model checking completed. No error has been found." not in out:
        tail = "\n".join(out.splitlines()[-25:])
        raise ToolError("TLC did not complete trace validation of %s (see %s/tlc.out)\n%s" % (trace_file, d, tail))
    m = re.search(r"(\d+) states generated, (\d+) distinct states found", out)
    res["states"] = int(m.group(2)) if m else 0
    res["wall_s"] = time.time() - t0
    res["trace_file"] = trace_file
    shutil.rmtree(os.path.join(d, "md"), ignore_errors=True)
    return res


def parallel(fn, items, workers=8):
    with concurrent.futures.ThreadPoolExecutor(max_workers=workers) as ex:
        return list(ex.map(fn, items))


def tlc_mc(spec, cfg, workers=8, timeout=1800, name=None, expect_violation=False, extra=(), xmx="8g"):
    """Exhaustive (bounded) model checking.  Returns dict(states, distinct, ok, violated, coverage, out)."""
    name = name or cfg
    d = workdir("mc-" + name)
    cfgp = os.path.join(SPEC, cfg + ".cfg")
    specp = os.path.join(SPEC, spec + ".tla")
    env = dict(os.environ)
    env.pop("JAVA_TOOL_OPTIONS", None)
    t0 = time.time()
    try:
        p = subprocess.run(_tlc_cmd(specp, cfgp, os.path.join(d, "md"), workers, extra=["-coverage", "1"] + list(extra), xmx=xmx, xss="64m"),
                           cwd=d, env=env, stdout=subprocess.PIPE, stderr=subprocess.STDOUT, text=True, timeout=timeout)
    except subprocess.TimeoutExpired:
        raise ToolError("TLC model checking of %s timed out after %ss" % (cfg, timeout))
    out = p.stdout
    open(os.path.join(d, "tlc.out"), "w").write(out)
    shutil.rmtree(os.path.join(d, "md"), ignore_errors=True)
    m = None
    for m in re.finditer(r"(\d+) states generated, (\d+) distinct states found", out):
        pass
    res = {"cfg": cfg, "generated": int(m.group(1)) if m else 0, "distinct": int(m.group(2)) if m else 0,
           "wall_s": time.time() - t0, "out_file": os.path.join(d, "tlc.out")}
    res["ok"] = "Model checking completed. No error has been found." in out
    if "-simulate" in extra:
        res["ok"] = ("Finished in" in out) and ("Error:" not in out)
    res["violated"] = None
    mv = re.search(r"Error: Invariant (\S+) is violated|Error: Action property (\S+) is violated|Error: Temporal properties were violated|Error: Deadlock reached", out)
    if mv:
        res["violated"] = mv.group(1) or mv.group(2) or mv.group(0)
    # per action coverage: lines like "<Name line .. of module M>: 12:345"
    cov = {}
    for cm in re.finditer(r"^<(\w+) line \d+, col \d+ to line \d+, col \d+ of module (\w+)>: (\d+):(\d+)", out, re.M):
        cov[cm.group(2) + "." + cm.group(1)] = max(cov.get(cm.group(2) + "." + cm.group(1), 0), int(cm.group(4)))
    res["coverage"] = cov
    prints = [l for l in out.splitlines() if l.startswith('"') and ("REPLAY" in l or "PROG" in l)]
    res["prints"] = prints
    if not res["ok"] and not res["violated"]:
        tail = "\n".join(out.splitlines()[-30:])
        raise ToolError("TLC failed on %s (see %s)\n%s" % (cfg, res["out_file"], tail))
    return res


# ---------------------------------------------------------------------------------------------
# known findings

def load_findings():
    p = os.path.join(VERIF, "known_findings.json")
    if not os.path.exists(p):
        return {"open": [], "fixed": []}
    return json.load(open(p))


def match_finding(findings, prop, ident):
    """ident: dict of identity fields of a violation.  A finding matches when every key of its
    'match' object equals the violation's field (lists = any of)."""
    for f in findings.get("open", []):
        if f.get("property") != prop:
            continue
        ok = True
        for k, v in f.get("match", {}).items():
            have = ident.get(k)
            if isinstance(v, list):
                if have not in v:
                    ok = False
            elif have != v:
                ok = False
        if ok:
            return f
    return None


# ---------------------------------------------------------------------------------------------
# evidence / replay

def write_replay(prop, payload):
    os.makedirs(REPLAYS, exist_ok=True)
    blob = json.dumps(payload, sort_keys=True)
    h = hashlib.sha1(blob.encode()).hexdigest()[:12]
    path = os.path.join(REPLAYS, "%s-%s.json" % (prop, h))
    open(path, "w").write(json.dumps(payload, indent=1))
    return path


def write_evidence(prop, tier, seed, coverage, assumptions, wall_s, violations, level="model_checking"):
    os.makedirs(EVIDENCE, exist_ok=True)
    ev = {"property_id": prop, "tier": tier, "seed": int(seed), "level": level, "coverage": coverage,
          "assumptions": assumptions, "wall_s": round(wall_s, 2), "violations": int(violations)}
    tmp = os.path.join(EVIDENCE, prop + ".json.tmp")
    open(tmp, "w").write(json.dumps(ev, indent=1))
    os.replace(tmp, os.path.join(EVIDENCE, prop + ".json"))
    return ev


def read_ndjson(path):
    out = []
    with open(path) as f:
        for line in f:
            line = line.strip()
            if line:
                out.append(json.loads(line))
    return out
