----------------------------- MODULE WireFrames -----------------------------
(***************************************************************************)
(* Classification of request frames by their header, as the properties     *)
(* C09 C10 C12 C13 describe them (DESIGN.md appendix C).                   *)
(***************************************************************************)
EXTENDS Naturals, Sequences, FiniteSets

HeaderLen == 24

OpClass(op) ==
    CASE op \in {0, 9, 12, 13} -> "get"
      [] op \in {4, 20} -> "delete"
      [] op \in {1, 2, 3, 17, 18, 19} -> "store"
      [] op \in {14, 15, 25, 26} -> "concat"
      [] op \in {5, 6, 21, 22} -> "delta"
      [] op \in {8, 24} -> "flush"
      [] op \in {10, 11, 16} -> "plain"
      [] op \in {7, 23} -> "quit"
      [] op \in {28, 29, 30, 32, 33, 34, 35, 36} -> "unimpl"
      [] OTHER -> "unassigned"

QuietOps == {9, 13, 17, 18, 19, 20, 21, 22, 23, 24, 25, 26, 30, 36}
IsQuiet(op) == op \in QuietOps
KeyRequired(cls) == cls \in {"get", "delete", "store", "concat", "delta"}

(* the header passes the checks made before anything else is looked at *)
HeaderOK(f) == f.magic = 128 /\ f.op < 37 /\ f.dt = 0

(* C10: a frame with one of these defects is never executed *)
Invalid(f) == \/ ~HeaderOK(f)
              \/ OpClass(f.op) = "unassigned"
              \/ f.kl > 250 \/ f.el > 20
              \/ (KeyRequired(OpClass(f.op)) /\ f.kl = 0)
              \/ f.bl < f.kl + f.el

(* the shape the protocol gives the opcode *)
Canonical(f) ==
    LET c == OpClass(f.op)  vl == f.bl - (f.kl + f.el) IN
    /\ ~Invalid(f)
    /\ CASE c \in {"get", "delete"} -> f.el = 0 /\ vl = 0
         [] c = "store"  -> f.el = 8
         [] c = "concat" -> f.el = 0
         [] c = "delta"  -> f.el = 20 /\ vl = 0
         [] c = "flush"  -> f.el \in {0, 4} /\ f.kl = 0 /\ vl = 0
         [] c \in {"plain", "quit"} -> f.bl = 0
         [] OTHER -> TRUE

(* class of a frame under item size limit `limit` *)
Class(f, limit) ==
    IF HeaderOK(f) /\ (f.bl > limit \/ f.blbig) THEN "oversize"
    ELSE IF Invalid(f) THEN "invalid"
    ELSE IF OpClass(f.op) = "unimpl" THEN "unimpl"
    ELSE IF Canonical(f) THEN "canonical"
    ELSE "odd"
=============================================================================
