CONSTANTS
  MaxU = "18446744073709551615"
  Clients = {1, 2}
  Progs <- Progs08_2
  Inits = {"absent", "present", "expired"}
  KeyLock = TRUE
  ExpiryRecheck = TRUE
  EntryApi = TRUE
  FlushLock = TRUE
  CollectOwn = TRUE
SPECIFICATION Spec
INVARIANT EmitSched
